"""Arm palette and product-of-exponentials oracle shared by the arm harnesses (C05-C08, C13, C14, C17).
Geometry is concrete and rational (Fractions in the symbolic world, floats in the concrete one); joint values,
wrenches, rates ... are symbolic.  The oracle is built from the CONSTRUCTOR ARGUMENTS, never from the object's fields."""
from fractions import Fraction as F
from . import hlib as H

L1, L2, L3, W_ = F(9, 2), F(15, 4), F(15, 4), F(1, 10)

SPECS = {
    # the 6R arm of tests/test_kinematics_arm.py
    'test6R': dict(
        axes=[(0, 0, 1), (0, 1, 0), (0, 1, 0), (1, 0, 0), (0, 1, 0), (1, 0, 0)],
        points=[(0, 0, 0), (0, 0, L1), (L2, 0, L1), (L2 + L3, 0, L1), (L2 + L3 + W_, 0, L1), (L2 + L3 + 2 * W_, 0, L1)],
        ee=(L2 + L3 + 3 * W_, 0, L1)),
    # two revolute joints, second axis generic (unit, rational)
    '2R': dict(axes=[(0, 0, 1), (F(3, 5), 0, F(4, 5))], points=[(0, 0, 0), (1, F(1, 2), F(1, 5))], ee=(F(3, 2), F(1, 2), 1)),
    '3R': dict(axes=[(0, 0, 1), (0, 1, 0), (F(2, 3), F(1, 3), F(2, 3))],
               points=[(0, 0, 0), (0, 0, 1), (F(4, 5), F(1, 10), 1)], ee=(F(3, 2), F(1, 5), F(6, 5))),
    '1R': dict(axes=[(0, F(3, 5), F(4, 5))], points=[(F(1, 2), 0, F(1, 4))], ee=(1, F(1, 3), F(1, 2))),
}


def _c(w, v):
    return v if w.symbolic else float(v)


def rot_rational(axis, c, s):
    """rotation matrix about a coordinate axis with rational cos/sin"""
    if axis == 2:
        return [[c, -s, 0], [s, c, 0], [0, 0, 1]]
    if axis == 1:
        return [[c, 0, s], [0, 1, 0], [-s, 0, c]]
    return [[1, 0, 0], [0, c, -s], [0, s, c]]


def _mm(A, B):
    return [[sum((A[i][k] * B[k][j] for k in range(len(B))), 0) for j in range(len(B[0]))] for i in range(len(A))]


BASES = {
    'I': ([[1, 0, 0], [0, 1, 0], [0, 0, 1]], (0, 0, 0)),
    'B1': (rot_rational(2, F(3, 5), F(4, 5)), (1, -2, F(1, 2))),
    'B2': (_mm(rot_rational(0, F(5, 13), F(12, 13)), rot_rational(2, F(4, 5), F(-3, 5))), (F(-3, 2), F(1, 4), 2)),
    'B3': (rot_rational(1, F(8, 17), F(15, 17)), (F(1, 5), 3, -1)),
}


def base_matrix(w, name):
    R, p = BASES[name]
    return w.array([[_c(w, R[i][0]), _c(w, R[i][1]), _c(w, R[i][2]), _c(w, p[i])] for i in range(3)] + [[0, 0, 0, 1]])


def screw_columns(w, spec):
    cols = []
    for ax, q in zip(spec['axes'], spec['points']):
        v = H.cross(q, ax)                        # v = -w x q = q x w
        cols.append([_c(w, x) for x in list(ax) + list(v)])
    return cols


def make_arm(w, name, base='I', with_axes=True, summary=True):
    """build the real Arm in either world; returns (arm, ctx) with ctx = dict(B, M, spec) for the oracle"""
    if w.symbolic and summary:
        from . import summary as SM
        SM.install(w.env)
    spec = SPECS[name]
    km = w.lib('kinematics.arm_model')
    tm = w.lib('general').tm
    n = len(spec['axes'])
    S_ = w.array(screw_columns(w, spec)).T
    Bm = base_matrix(w, base)
    Mm = w.array([[1, 0, 0, _c(w, spec['ee'][0])], [0, 1, 0, _c(w, spec['ee'][1])], [0, 0, 1, _c(w, spec['ee'][2])], [0, 0, 0, 1]])
    homes = w.array([[_c(w, q[i]) for q in spec['points']] for i in range(3)])
    axes = w.array([[_c(w, a[i]) for a in spec['axes']] for i in range(3)])
    arm = km.Arm(tm(Bm.copy()), S_.copy(), tm(Mm.copy()), homes.copy(), axes.copy() if with_axes else None)
    return arm, dict(B=Bm, M=Mm, spec=spec, n=n, S_args=S_, tm=tm)


def joint_exp(w, ax, q, th):
    """exp of a unit revolute screw through point q: [R, (I - R) q]"""
    ax = [_c(w, a) for a in ax]
    q = [_c(w, x) for x in q]
    R = H.rodrigues(w, ax, th)
    p = [q[i] - (R[i][0] * q[0] + R[i][1] * q[1] + R[i][2] * q[2]) for i in range(3)]
    return H.T_of(w, R, p)


def poe(w, ctx, thetas, B=None, M=None, upto=None):
    """B * prod_i exp([S_i] theta_i) * M with the screws given in the base frame (constructor arguments)"""
    spec = ctx['spec']
    T = H.eye(w, 4)
    n = len(thetas) if upto is None else upto
    for i in range(n):
        T = T @ joint_exp(w, spec['axes'][i], spec['points'][i], thetas[i])
    B = ctx['B'] if B is None else B
    M = ctx['M'] if M is None else M
    return B @ T @ M


def clamp(w, th, lo, hi):
    """oracle clamp as a harness-level branch"""
    if th < lo:
        return lo
    if th > hi:
        return hi
    return th


def sym_thetas(w, n, prefix='t', lo=None, hi=None, window=True):
    """joint values; outside the near-zero cut-off window unless window=False"""
    lo = -2 * w.pi if lo is None else lo
    hi = 2 * w.pi if hi is None else hi
    out = []
    for i in range(n):
        t = w.angle('%s%d' % (prefix, i), lo, hi)
        if window:
            eps = w.const('1e-6')
            if w.symbolic:
                w.assume(H.OR(t >= eps, t <= -eps))
            elif abs(t) < 1e-6:
                from .world import HarnessReject
                raise HarnessReject('cut-off window')
        if not w.symbolic and (abs(t - float(lo)) < 0.01 or abs(float(hi) - t) < 0.01):
            # concrete replays differentiate numerically: stay clear of the clamping limits
            from .world import HarnessReject
            raise HarnessReject('too close to a joint limit for central differences')
        out.append(t)
    return out
