#!/bin/sh
# Idempotently create the overlay venv /verif/.venv = /venv + z3-solver + crosshair-tool (offline wheelhouse).
set -e
V=/verif/.venv
if [ -x "$V/bin/python" ] && "$V/bin/python" -c "import z3, crosshair, numpy" >/dev/null 2>&1; then exit 0; fi
rm -rf "$V"
/venv/bin/python -m venv "$V"
SP=$("$V/bin/python" -c "import sysconfig; print(sysconfig.get_paths()['purelib'])")
printf "import site; site.addsitedir('/venv/lib/python3.12/site-packages')\n" > "$SP/_overlay.pth"
PIP_NO_INDEX=1 "$V/bin/pip" install -q --no-index --find-links /opt/veriftools/wheels crosshair-tool z3-solver >/dev/null 2>&1 || \
PIP_NO_INDEX=1 "$V/bin/pip" install --no-index --find-links /opt/veriftools/wheels crosshair-tool z3-solver
"$V/bin/python" -c "import z3, crosshair, numpy; print('overlay venv ready: z3', z3.get_version_string())"
