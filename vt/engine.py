"""Path exploration (re-execution with decision prefixes), obligations, solver interface."""
import time
import traceback
import sys
import os
import json
import hashlib
from fractions import Fraction
import z3

from . import sym as S
from .sym import Sym, SymBool


class PathEnd(BaseException):
    """raised to stop the current path (infeasible assumption, budget)"""


class Budget(BaseException):
    pass


# ----------------------------------------------------------------------------------------------

class Stats:
    def __init__(self):
        self.queries = 0
        self.solver_s = 0.0
        self.sat = self.unsat = self.unknown = 0
        self.branch_queries = 0

    def as_dict(self):
        return dict(queries=self.queries, solver_s=round(self.solver_s, 3), sat=self.sat, unsat=self.unsat,
                    unknown=self.unknown, branch_queries=self.branch_queries)


class Obligation:
    def __init__(self, label, status, how, model=None, smt=None, secs=0.0, detail=None):
        self.label = label
        self.status = status      # proved | violated | unknown
        self.how = how            # normal-form | solver | concrete
        self.model = model        # dict input name -> value string
        self.smt = smt
        self.secs = secs
        self.detail = detail

    def as_dict(self):
        d = dict(label=self.label, status=self.status, how=self.how, secs=round(self.secs, 3))
        if self.model is not None:
            d['model'] = self.model
        if self.detail:
            d['detail'] = self.detail
        if getattr(self, 'model_only', False):
            d['model_only'] = True
        return d


class PathResult:
    def __init__(self, prefix):
        self.prefix = list(prefix)
        self.obligations = []
        self.outcome = 'ok'        # ok | raised:<T> | infeasible | cut | error
        self.exc = None
        self.n_decisions = 0
        self.conds_smt = None
        self.assumed_nonzero = 0
        self.secs = 0.0


def _model_value(model, zvar):
    v = model.eval(zvar, model_completion=True)
    try:
        if z3.is_rational_value(v):
            return str(v.as_fraction())
        if z3.is_algebraic_value(v):
            return v.as_decimal(30).rstrip('?')
        return str(v)
    except Exception:
        return str(v)


class Ctx:
    """state of one path execution"""

    def __init__(self, explorer, prefix):
        self.ex = explorer
        self.prefix = list(prefix)
        self.pos = 0
        self.conds = []          # z3 bools taken on this path
        self.conds_at = []       # atom set of each path condition
        self.cond_atoms = set()
        self.assumes = []        # z3 bools from harness preconditions
        self.assumes_at = []     # atom set of each assumption (None = unknown: never used by the light check)
        self.decided = {}
        self.new_prefixes = []
        self.res = PathResult(prefix)
        self.inputs = {}         # name -> (zvar, kind)
        self.nonzero = {}        # key -> z3 expr assumed != 0 (divisions)
        self.memo = {}
        self.extra_atoms = set()

    # -- solver ------------------------------------------------------------------------------
    def _axioms(self, atoms):
        seen = set()
        stack = list(atoms)
        out = []
        while stack:
            i = stack.pop()
            if i in seen:
                continue
            seen.add(i)
            at = S.ATOMS[i]
            out.extend(at.axioms)
            for j in at.deps:
                if j not in seen:
                    stack.append(j)
            if at.kind in ('sin', 'cos') and isinstance(at.data, S.Atom):
                # the partner atom's relation
                for j in (S.ATOM_BY_NAME['sin{%s}' % at.data.name].id,):
                    if j not in seen:
                        stack.append(j)
        return out

    def _closure(self, atoms):
        seen = set()
        stack = list(atoms)
        while stack:
            i = stack.pop()
            if i in seen:
                continue
            seen.add(i)
            stack.extend(S.ATOMS[i].deps)
        return seen

    def light_check(self, zcond, atoms, timeout_ms=1500):
        ex = self.ex
        cl = self._closure(atoms)
        s = ex.new_solver(timeout_ms)
        seen = set()
        for a in self._axioms(atoms):
            k = a.get_id()
            if k not in seen:
                seen.add(k)
                s.add(a)
        for a, at in zip(self.assumes, self.assumes_at + [None] * (len(self.assumes) - len(self.assumes_at))):
            if at is not None and at <= cl:
                s.add(a)
        for c, at in zip(self.conds, self.conds_at):
            if at <= cl:
                s.add(c)
        s.add(zcond)
        t0 = time.time()
        r = str(s.check())
        ex.stats.queries += 1
        ex.stats.solver_s += time.time() - t0
        ex.stats.light = getattr(ex.stats, 'light', 0) + 1
        return r

    def check(self, extra, extra_atoms, timeout_ms, want_model=False):
        """satisfiability of axioms & assumptions & path & extra"""
        ex = self.ex
        atoms = set(self.cond_atoms) | set(extra_atoms) | self.extra_atoms
        s = ex.new_solver(timeout_ms)
        # de-duplicate axioms by ast id
        seen = set()
        for a in self._axioms(atoms):
            k = a.get_id()
            if k not in seen:
                seen.add(k)
                s.add(a)
        for a in self.assumes:
            s.add(a)
        for a in self.nonzero.values():
            s.add(a)
        for c in self.conds:
            s.add(c)
        for e in extra:
            s.add(e)
        t0 = time.time()
        r = s.check()
        dt = time.time() - t0
        st = ex.stats
        st.queries += 1
        st.solver_s += dt
        rs = str(r)
        if rs == 'sat':
            st.sat += 1
        elif rs == 'unsat':
            st.unsat += 1
        else:
            st.unknown += 1
        model = None
        if rs == 'sat' and want_model:
            m = s.model()
            model = {name: _model_value(m, zv) for name, (zv, kind) in self.inputs.items()}
            # the trig axioms tie an angle to its sin/cos atoms only loosely: when the model assigns sin/cos, replay the
            # angle that actually has those values (atan2), so that the counterexample reproduces on the real code
            for name, (zv, kind) in self.inputs.items():
                if kind != 'angle':
                    continue
                sa, ca = S.ATOM_BY_NAME.get('sin{%s}' % name), S.ATOM_BY_NAME.get('cos{%s}' % name)
                if sa is None or ca is None or not (sa.id in atoms or ca.id in atoms):
                    continue
                try:
                    import math
                    from fractions import Fraction
                    fv = lambda q: float(Fraction(q)) if '/' in q else float(q)
                    sv, cv = fv(_model_value(m, sa.z)), fv(_model_value(m, ca.z))
                    th0 = fv(model[name])
                    th = math.atan2(sv, cv)
                    # same branch as the model's angle when possible
                    k = round((th0 - th) / (2 * math.pi))
                    model[name] = repr(th + 2 * math.pi * k)
                except Exception:
                    pass
            if ex.debug_full_model:
                model['__atoms__'] = {S.ATOMS[i].name: _model_value(m, S.ATOMS[i].z) for i in sorted(atoms)}
        smt = None
        if ex.keep_smt and (rs != 'unsat' or ex.sample_budget > 0):
            try:
                smt = s.to_smt2()
                if len(smt) > 6000:
                    smt = smt[:6000] + '\n; ... truncated'
            except Exception:
                smt = None
        return rs, model, smt, dt

    # -- decisions ---------------------------------------------------------------------------
    def decide(self, sb):
        key = sb.z.get_id()
        if key in self.decided:
            return self.decided[key]
        i = self.pos
        self.pos += 1
        if i < len(self.prefix):
            take = self.prefix[i]
        else:
            if len(self.prefix) >= self.ex.max_decisions:
                self.res.outcome = 'cut'
                raise PathEnd()
            if self.ex.blind_branches:
                take = True
                self.new_prefixes.append(self.prefix + [False])
                self.ex.unknown_branches += 1
                self.prefix.append(take)
                self.decided[key] = take
                self.conds.append(sb.z)
                self.conds_at.append(frozenset(sb.atoms))
                self.cond_atoms |= sb.atoms
                self.res.n_decisions += 1
                return take
            # light check first: only the constraints over the condition's own atoms (a subset of the constraints
            # being unsatisfiable settles infeasibility even when the full query would time out)
            lt = self.light_check(sb.z, sb.atoms)
            lf = self.light_check(z3.Not(sb.z), sb.atoms) if lt != 'unsat' else 'sat'
            if lt == 'unsat' or lf == 'unsat':
                take = (lf == 'unsat')
                self.prefix.append(take)
                self.decided[key] = take
                self.conds.append(sb.z if take else z3.Not(sb.z))
                self.conds_at.append(frozenset(sb.atoms))
                self.cond_atoms |= sb.atoms
                self.res.n_decisions += 1
                return take
            self.ex.stats.branch_queries += 1
            rt, _, _, _ = self.check([sb.z], sb.atoms, self.ex.branch_timeout_ms)
            if rt == 'unsat':
                take = True if False else False
                # the other side must be feasible because the path is
            else:
                self.ex.stats.branch_queries += 1
                rf, _, _, _ = self.check([z3.Not(sb.z)], sb.atoms, self.ex.branch_timeout_ms)
                if rf == 'unsat':
                    take = True
                else:
                    take = True
                    self.new_prefixes.append(self.prefix + [False])
                    if rt == 'unknown' or rf == 'unknown':
                        self.ex.unknown_branches += 1
            self.prefix.append(take)
        self.decided[key] = take
        self.conds.append(sb.z if take else z3.Not(sb.z))
        self.conds_at.append(frozenset(sb.atoms))
        self.cond_atoms |= sb.atoms
        self.res.n_decisions += 1
        return take

    # -- harness-facing ----------------------------------------------------------------------
    def assume(self, cond):
        if isinstance(cond, SymBool):
            self.assumes.append(cond.z)
            while len(self.assumes_at) < len(self.assumes) - 1:
                self.assumes_at.append(None)
            self.assumes_at.append(frozenset(cond.atoms))
            self.extra_atoms |= cond.atoms
        elif not cond:
            self.res.outcome = 'infeasible'
            raise PathEnd()

    def note_division(self, den):
        """division by a non-constant: den != 0 is assumed (reals model; recorded)"""
        key = S.pkey(den.n)
        if key not in self.nonzero:
            self.nonzero[key] = (S.p_z3(den.n) != 0)
            self.extra_atoms |= den.atoms()
            self.res.assumed_nonzero += 1

    def prove(self, cond, label, detail=None):
        ex = self.ex
        t0 = time.time()
        if not isinstance(cond, SymBool):
            if cond:
                ob = Obligation(label, 'proved', 'normal-form', secs=0.0, detail=detail)
            else:
                # concretely false on this path: any model of the path is a counterexample
                rs, model, smt, dt = self.check([], (), ex.prove_timeout_ms, want_model=True)
                if rs == 'unsat':
                    ob = Obligation(label, 'proved', 'solver', secs=dt, detail='path infeasible')
                elif rs == 'sat':
                    ob = Obligation(label, 'violated', 'solver', model=model, smt=smt, secs=dt, detail=detail)
                else:
                    ob = Obligation(label, 'unknown', 'solver', smt=smt, secs=dt, detail=detail)
            self.res.obligations.append(ob)
            return ob.status == 'proved'
        rs, model, smt, dt = self.check([z3.Not(cond.z)], cond.atoms, ex.prove_timeout_ms, want_model=True)
        if rs == 'unsat':
            ob = Obligation(label, 'proved', 'solver', secs=dt, smt=smt, detail=detail)
            if smt:
                ex.sample_budget -= 1
        elif rs == 'sat':
            ob = Obligation(label, 'violated', 'solver', model=model, smt=smt, secs=dt, detail=detail)
        else:
            ob = Obligation(label, 'unknown', 'solver', smt=smt, secs=dt, detail=detail)
        self.res.obligations.append(ob)
        return ob.status == 'proved'

    def witness(self, label='reachable'):
        """vacuity guard: the path (with all assumptions) must be satisfiable"""
        rs, model, smt, dt = self.check([], (), self.ex.prove_timeout_ms, want_model=True)
        self.res.obligations.append(Obligation(label, {'sat': 'proved', 'unsat': 'violated'}.get(rs, 'unknown'),
                                               'witness', model=model, secs=dt))
        return rs == 'sat', model


CURRENT = [None]


def _decide_hook(sb):
    c = CURRENT[0]
    if c is None:
        raise RuntimeError('symbolic branch outside an exploration context')
    return c.decide(sb)


def _div_hook(den):
    c = CURRENT[0]
    if c is not None:
        c.note_division(den)


def _sqrt_prover(diff):
    """is diff == 0 implied by the current path?  (used by sym_sqrt to recognise sqrt(e) = h)"""
    c = CURRENT[0]
    if c is None:
        return False
    if diff.is_zero():
        return True
    cv = diff.const_value()
    if cv is not None:
        return cv == 0
    key = ('sqrtp', S.pkey(diff.n), len(c.conds))
    if key in c.memo:
        return c.memo[key]
    rs, _, _, _ = c.check([diff.z() != 0], diff.atoms(), min(c.ex.branch_timeout_ms, 5000))
    c.memo[key] = (rs == 'unsat')
    return rs == 'unsat'


S._SQRT_PROVER[0] = _sqrt_prover
S._DECIDE_HOOK[0] = _decide_hook
S._DIV_HOOK[0] = _div_hook


class Explorer:
    def __init__(self, max_paths=2000, max_decisions=60, branch_timeout_ms=5000, prove_timeout_ms=20000,
                 time_budget_s=600, keep_smt=True, tactic=None, blind_branches=False):
        self.max_paths = max_paths
        # blind_branches: fork at every symbolic decision WITHOUT asking the solver whether both sides are feasible (for
        # decisions whose feasibility queries hang in nlsat).  Sound for proofs (an infeasible path only adds vacuous
        # obligations; counterexamples must satisfy the path condition and are replayed anyway).
        self.blind_branches = blind_branches
        self.max_decisions = max_decisions
        self.branch_timeout_ms = branch_timeout_ms
        self.prove_timeout_ms = prove_timeout_ms
        self.time_budget_s = time_budget_s
        self.stats = Stats()
        self.keep_smt = keep_smt
        self.sample_budget = 2
        self.unknown_branches = 0
        self.tactic = tactic
        self.rlimit_per_ms = int(os.environ.get('VERIF_RLIMIT_PER_MS', '3000'))
        self.debug_full_model = bool(os.environ.get('VERIF_DEBUG_MODEL'))

    def new_solver(self, timeout_ms):
        if self.tactic:
            s = z3.Tactic(self.tactic).solver()
        else:
            s = z3.Solver()
        s.set('timeout', int(timeout_ms))
        try:
            # the wall-clock timeout is cooperative and not honoured in every phase of nlsat; the resource limit is
            s.set('rlimit', int(timeout_ms) * self.rlimit_per_ms)
        except z3.Z3Exception:
            pass
        return s

    def explore(self, fn, make_world):
        """fn(world) executed once per feasible path.  returns list[PathResult], complete flag"""
        t_start = time.time()
        queue = [[]]
        results = []
        complete = True
        while queue:
            if len(results) >= self.max_paths or time.time() - t_start > self.time_budget_s:
                complete = False
                break
            prefix = queue.pop()
            ctx = Ctx(self, prefix)
            CURRENT[0] = ctx
            t0 = time.time()
            try:
                w = make_world(ctx)
                fn(w)
            except PathEnd:
                pass
            except S.SymbolicLeak as e:
                ctx.res.outcome = 'error'
                ctx.res.exc = 'SymbolicLeak: %s' % e
                ctx.res.tb = traceback.format_exc(limit=12)
            except RecursionError as e:
                ctx.res.outcome = 'error'
                ctx.res.exc = 'RecursionError'
            except Exception as e:
                # exception propagating out of the harness = the library raised where the harness
                # did not expect it: an obligation failure for every input on this path
                ctx.res.outcome = 'raised:%s' % type(e).__name__
                ctx.res.exc = '%s: %s' % (type(e).__name__, e)
                ctx.res.tb = traceback.format_exc(limit=12)
                try:
                    rs, model, smt, dt = ctx.check([], (), self.prove_timeout_ms, want_model=True)
                except Exception:
                    rs, model = 'unknown', None
                if rs == 'sat':
                    ctx.res.obligations.append(Obligation('no-exception', 'violated', 'solver', model=model,
                                                          detail=ctx.res.exc))
                elif rs == 'unknown':
                    ctx.res.obligations.append(Obligation('no-exception', 'unknown', 'solver', detail=ctx.res.exc))
            finally:
                CURRENT[0] = None
            ctx.res.secs = time.time() - t0
            ctx.res.prefix = list(ctx.prefix)
            try:
                ctx.res.conds_smt = [str(c)[:300] for c in ctx.conds]
            except Exception:
                pass
            results.append(ctx.res)
            queue.extend(ctx.new_prefixes)
        return results, complete
