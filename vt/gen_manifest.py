"""Regenerate /verif/MANIFEST.json from the table below (python3 vt/gen_manifest.py)."""
import json
import os

ROOT = os.path.dirname(os.path.dirname(os.path.abspath(__file__)))

TRUST = ('reals not IEEE-754 floats; CPython + NumPy object-array plumbing; Z3 5.1 nlsat; the scalar normaliser '
         '(vt/sym.py) and the atom axioms (standard facts on sin/cos/arccos/sqrt); stub contracts listed in the '
         'evidence; the oracle in the harness; counterexamples are replayed on the real compiled library before '
         'being reported')

CHECKS = {
    'C01': dict(
        level='model_checking',
        text='Bounded symbolic execution of the real source of the MR primitives (every feasible path, inputs '
             'symbolic over the whole group within |v|,|p| <= 1e3): each identity of the property is an obligation '
             'path-condition => P decided by Z3 (unsat of the negation) after exact normalisation modulo the atoms\' '
             'defining relations; covers the 1e-6 cut-off window and the exact half-turn branch, which sampling reaches '
             'with probability zero.',
        design='5/C01',
        technique='symbolic execution of the Python source (numpy proxy, numba.jit = identity) + Z3 QF_NRA per path',
    ),
}

CHECKS['C15'] = dict(
    level='model_checking',
    text='Symbolic execution of RRTStar.obstruction on arbitrary real segments and boxes (coordinates symbolic in '
         '[-10,10]); on each of the feasible paths of the separating-axis code Z3 proves that the returned verdict '
         'equals an independent exact decision procedure (Fourier-Motzkin elimination of the segment parameter, '
         'closed box); multi-box sets are reduced to the single-box result by a solver-checked compositional lemma. '
         'Covers all real inputs, i.e. strictly more than the lattice enumeration in the property.',
    design='5/C15',
    technique='symbolic execution of the Python source + Z3 QF_NRA equivalence against a quantifier-free oracle',
)

CHECKS['C04'] = dict(
    level='model_checking',
    text='Symbolic execution of the real tm class and frame helpers on symbolic poses (axis-angle with |u|=1, theta in '
         '[0, pi-1e-3], |p| <= 1e3): group laws for all triples, localToGlobal/globalToLocal as ref*rel / inv(ref)*x and '
         'mutual inverses, and agreement of every documented constructor form on one symbolic pose, each as an '
         'obligation decided per path by normal form + Z3. Exp/Log under composition are summarised by the contracts '
         'C01 proves for the real functions.',
    design='5/C04',
    technique='symbolic execution of the Python source + Z3 QF_NRA per path; assume-guarantee summary of Exp/Log from C01',
)

CHECKS['C12'] = dict(
    level='model_checking',
    text='Symbolic execution of the real Screw/Wrench classes and helpers with symbolic frames A, B, C, 6-vectors, '
         'forces, points and scalars: round trip, functoriality, recorded frame, power invariance, moment = p x f, '
         'zero moment about the application point, mixed-frame sums and the vector-space laws for every operand '
         'form (scalar, 6-array, 6x1 array, object, right-hand operators), each an obligation decided per path by '
         'normal form + Z3; the frame-change oracle is built independently from the homogeneous matrices.',
    design='5/C12',
    technique='symbolic execution of the Python source + Z3 QF_NRA per path; assume-guarantee summary of Exp/Log from C01',
)

CHECKS['C03'] = dict(
    level='model_checking',
    text='Inductive formulation over histories: symbolic execution of every constructor form (base) and of one operation '
         'of the property\'s list from an ARBITRARY coherent transform with symbolic arguments (step); the coherence '
         'invariant (6x1 vector, 4x4 matrix with last row 0 0 0 1, translation column = first three entries, rotation '
         'block = exponential of the last three) and the write/read-back clauses are obligations per path. A passing step '
         'covers histories of every length, which no bounded enumeration of sequences does.',
    design='5/C03',
    technique='symbolic execution of the Python source (one-step induction over an arbitrary coherent state) + Z3 per path',
)
CHECKS['C19'] = dict(
    level='model_checking',
    engine='crosshair',
    text='CrossHair symbolic execution of the REAL Comms class with in-memory endpoint doubles against a reference model: '
         'all operation histories up to the depth bound with symbolic operation codes/arguments (messages or no-data at every '
         'receive), plus a one-step inductive check from an arbitrary rule-table state satisfying the representation '
         'invariant; only "Confirmed over all paths" counts, each shard has a reachability twin, counterexamples are '
         're-run concretely before being reported.',
    design='5/C19',
    technique='CrossHair (per-path symbolic execution on Z3) of the real router against a reference model; sharded by first operation',
    note='CrossHair\'s models of int/dict/list/str; endpoints are in-memory doubles of the CommsObject interface (real UDP '
         'sockets outside the claim); reference model in vt/xh/router_model.py',
)

CHECKS['C20'] = dict(
    level='model_checking',
    text='Symbolic execution of the real disp/dispa/disptex/printTFlist source: array shapes are enumerated within the '
         'stated bounds, element values are symbolic (format()/round()/str() of a symbolic number yield tokens recording '
         'which value was rendered with which width.precision; the digit-count branch forks on the magnitude); per path: '
         'no exception, a string is returned and printed verbatim, and for ndim <= 4, |x| < 9999 the tokens are exactly '
         'the elements in row-major order with the requested decimals. Scalars, strings, None, nested containers, '
         'transforms, wrenches and lists of them included; nan/inf/huge values concretely.',
    design='5/C20',
    technique='symbolic execution of the Python source with token-valued formatting + Z3 per branch; shapes enumerated',
)

CHECKS['C18'] = dict(
    level='model_checking',
    text='Symbolic execution of the real helper functions on symbolic poses that do NOT pass through the origin: each '
         'defining relation of the property (reflection in the local XY plane + involution, mean position and geodesic '
         'half rotation, lookAt position/proper rotation/z-axis, plane contains its points, metric axioms incl. the '
         'triangle inequality via solver-checked lemmas, exact gap closing, evenly spaced straight path, twist to goal, '
         'chain Jacobian = analytic, unit samplers, angle wrapping modulo 2*pi) is an obligation per path decided by normal '
         'form + Z3. rotationFromVector / numericalJacobian accuracy are stated not-applicable clauses.',
    design='5/C18',
    technique='symbolic execution of the Python source + Z3 QF_NRA/NIRA per path; lemmas (cut rule); Exp/Log summary from C01',
)

CHECKS['C05'] = dict(
    level='model_checking',
    text='Symbolic execution of the real Arm class (constructor, initialize, FK with clamping, move, setArbitraryHome, '
         'restoreOriginalEE, randomPos, joint-frame queries) on arms with concrete rational geometry built at identity and '
         'non-identity bases, joint vectors symbolic: after every step of every operation history up to the bound the '
         'forward kinematics equals an independent product-of-exponentials oracle built from the constructor arguments '
         '(base * PoE * home tool pose, out-of-limit joints clamped) and the reported tool pose, base pose, joint frames '
         'and defaulted queries agree with the stored joint state; each an obligation per path.',
    design='5/C05',
    technique='symbolic execution of the Python source over all short operation histories + Z3 per path; PoE oracle from constructor arguments',
)

CHECKS['C06'] = dict(
    level='model_checking',
    text='Symbolic execution of the real Arm Jacobian and statics methods (all joint values symbolic) on arms in four states '
         '(fresh, moved, tool changed, tool restored): each column of the space/body/link Jacobians equals vee of the FORMAL '
         'derivative of the symbolic FK output of the same real code (so a self-consistent Jacobian of the wrong model is '
         'caught), body = Ad(inv T) space, frame-aligned variant, J qdot, torque.rate = wrench.twist in space and body form, '
         'and the link-mass statics against a geometric oracle; obligations per path. numericalJacobian accuracy and the '
         'statics round trip are exercised by concrete sampling only (stated).',
    design='5/C06',
    technique='symbolic execution of the Python source + formal differentiation of the symbolic FK + Z3 per path',
)

CHECKS['C13'] = dict(
    level='model_checking',
    text='Symbolic execution of the real loadArmFromURDF (with the real xml.etree parser) on generated URDF files whose numeric '
         'slots are symbols: every xyz / rpy / axis value of the file becomes a symbolic input through the loader\'s own '
         'string-to-number conversions, the chain structure (1..3 moving joints, fixed joints before/between/after, world link, '
         'inertial data, each optional element omitted in turn) is enumerated; the loaded arm\'s FK at symbolic joint values must '
         'equal the file\'s own semantics (origin transforms with fixed-axis rpy, rotation about the axis, fixed joints folded), '
         'with dof, joint order, names and limits as written. Bundled URDFs: concrete sampling against an independent XML reading.',
    design='5/C13',
    technique='symbolic execution of the Python source with symbol-valued file literals + Z3 per path; structures enumerated',
)

CHECKS['C02'] = dict(
    level='translation_validation',
    text='Translation validation of the port against the vendored reference modern_robotics 1.1.1: both sources are loaded by '
         'the same loader and executed on the SAME symbolic arguments in one path (list of shared functions computed at run '
         'time from the two ASTs); obligations: the port raises nowhere the reference returns, same shape, equal values - '
         'decided by normal form + Z3 over all real arguments of the stated families (rigid-body algebra fully symbolic incl. '
         'the half-turn and cut-off branches; FK/Jacobians; dynamics with symbolic state on the book chain; time scalings; '
         'trajectories). Iterative IK: symbolic capped-step bisimulation in the thorough tier, concrete differential sampling in '
         'the quick tier (success => tolerances met; same solution when both converge).',
    design='5/C02',
    technique='product-program symbolic execution of port and reference on shared symbolic inputs + Z3 per path',
)

CHECKS['C14'] = dict(
    level='model_checking',
    text='Symbolic execution of every operator / accessor / helper in scope on operands with symbolic payload, using the '
         'real NumPy object arrays so that views and aliases behave as in production: after each call, per feasible path, '
         'every array reachable from an operand is unchanged (identity, shape, exact elements), no array exposed by the '
         'result shares memory with an operand, mutating copies / getter results never reaches the source, default-'
         'constructed instances are identity/zero after arbitrary mutation of earlier ones, and arrays handed to the Arm '
         'constructor and to ported MR functions are unaltered. Path structure (e.g. early returns when frames coincide) '
         'is decided by Z3.',
    design='5/C14',
    technique='symbolic execution of the Python source on real (object) ndarrays + structural alias analysis per path; Z3 for branches',
)

CHECKS['C08'] = dict(
    level='model_checking',
    text='Symbolic execution of the real Newton-Euler code and of the Arm-level re-implementations on chains with symbolic '
         'state (q, qd, qdd, tau, g, F_tip) and symbolic SPD inertias: M symmetric; M = sum J_i^T G_i J_i with link Jacobians '
         'obtained by FORMAL differentiation of independently built link poses; tau = M qdd + c + g + J^T F; M*FD = tau - c - g '
         '- J^T F; gravity term = gradient of the potential; tip term = J_tip^T F; qd.c = 1/2 qd^T Mdot qd with Mdot the formal '
         'derivative of the computed M; all inverse/forward dynamics implementations (incl. trajectory form and Arm methods at '
         'identity and non-identity base) agree; leading minors > 0 for n <= 2. Energy conservation and n=3 positive '
         'definiteness follow on paper from these (stated).',
    design='5/C08',
    technique='symbolic execution of the Python source + formal differentiation + Z3 per path',
)

CHECKS['C07'] = dict(
    level='model_checking',
    text='Safety clauses by havoc + induction on the real solvers: symbolic execution of Arm.IK / constrainedIK / IKinSpace / '
         'IKinSpaceConstrained with the Newton update replaced by an ARBITRARY vector, arbitrary start, symbolic UNEQUAL '
         'tolerances, arbitrary goal pose, restarts with arbitrary draws: on every path, reported success implies the '
         'orientation / position error norms of the returned joints are within the configured orientation / position '
         'tolerances, the limit-respecting answer is inside the limits and the stored state is that answer; failure leaves '
         'reported tool pose = pose of the stored joints. The local-convergence clause is not encodable (concrete sampling '
         'of the full Newton iteration only, as are reach/unreachable goals and stationary moves).',
    design='5/C07',
    technique='symbolic execution of the Python source with havoc\'d Newton update (memoryless-loop induction) + Z3 per path',
)

CHECKS['C09'] = dict(
    level='model_checking',
    text='Symbolic execution of SP.__init__/IK/_IKHelper/move/spinCustom/FK and of the kernels SPIKinSpace / SPFKinSpaceR on a '
         'platform with rational plate-fixed joint coordinates and BOTH plate poses symbolic: squared leg lengths = squared '
         'joint-to-joint distances, published joints = pose applied to plate-fixed coordinates, invariance under a common '
         'symbolic rigid motion; FK fixed point: started where IK left the platform, both FK solvers return the pose and the '
         'requested lengths (fresh, moved by a symbolic rigid motion, re-spun by a symbolic angle); one Newton iteration from '
         'an arbitrary guess with a havocked linear solve: the kernel stops only if the residual or EVERY step component is '
         'below tolerance. Convergence from the neutral pose over the geometry ranges of the property is NOT encodable: '
         'differential concrete sampling (1500 / 10000 platforms x poses) only.',
    design='5/C09',
    technique='symbolic execution of the Python source + Z3 per path (bounded: one geometry, iteration cap 3); concrete sampling for solver convergence',
)

CHECKS['C11'] = dict(
    level='model_checking',
    text='Symbolic execution of SP.inverseJacobian / carryMassCalc / sumActuatorWrenches and Robot.staticForces(Inv)(Body) with BOTH '
         'plate poses, the twist, the wrench and the leg forces symbolic: rows of the inverse Jacobian are [b_i x n_i, n_i]; row . twist '
         '= d|t_i - b_i|/dt for the point carried by the spatial twist; leg forces satisfy sum f_i [t_i x n_i, n_i] = applied wrench '
         '(space) resp. Ad(T^-1)^T * body wrench (body); staticForcesInv(Body) inverts them; sumActuatorWrenches = - that sum for '
         'arbitrary forces; carryMassCalc loads the legs with wrench + top plate and shaft weights at their centres of gravity and '
         'returns the total with motor and bottom-plate weights; queries restore poses, joints, lengths. The pseudo-inverse is '
         'modelled by its defining linear equations (non-singular case). Default-argument calls with the real pseudo-inverse, '
         'Richardson differences and the condition-number bound of the property: concrete sampling over the geometry ranges.',
    design='5/C11',
    technique='symbolic execution of the Python source, exact normal forms modulo the defining equations of the linear solves + Z3 for path feasibility (bounded: one geometry)',
)

CHECKS['C10'] = dict(
    level='model_checking',
    text='One inductive step from an ARBITRARY coherent platform state (symbolic bottom and top pose): IK(top), IK(bottom), move by a '
         'symbolic rigid motion, spinCustom by a symbolic angle, Jacobian / force queries and validate(donothing) leave the published '
         'state coherent (joints = pose * plate-fixed coordinates, lengths = joint distances, relative transform = inv(bottom) * top, '
         'FK joint tables follow a re-spin); a verdict True of validate(donothing) implies the enabled leg-limit / not-inverted / tilt '
         'constraints and the plate-distance bound on every path. Corrective actions, both FK solvers inside histories, reverse FK, '
         'randomPos and the joint-deflection constraint are NOT encoded: 300 (thorough 3000) random histories of length <= 25 over all 14 '
         'operations and all 16 switch subsets on the real library (coherence to 1e-9, verdicts, purity of queries, normal return).',
    design='5/C10',
    technique='symbolic execution of the Python source + Z3 per path (one step from a symbolic coherent state); concrete history sampling for corrective paths',
)

CHECKS['C16'] = dict(
    level='model_checking',
    text='One growth iteration of the real generalGenerateTree / findPathGeneral from a 2-node tree with symbolic node positions (on a line), an '
         'ARBITRARY sample (generator stub), an ARBITRARY collision predicate and an ARBITRARY positive symmetric distance function (fresh '
         'symbolic value per pair): on every path exactly one node is added under a node of the previous tree, existing nodes keep parent and '
         'cost, stored cost = parent cost + distance, the parent link was reported collision-free, the accepted sample lies within [min, max] of '
         'its then-nearest node (independent brute-force search), the parent is the cheapest collision-free candidate examined; path extraction '
         'on 3-node trees starts at the root, follows parent links, ends with the goal and leaves the tree at the node nearest the goal. The '
         'R-tree is an exact in-memory double. Whole randomised runs (boxes, terrain, budgets, modes, callbacks) with the real R-tree: '
         'concrete sampling, insertion order replayed against brute-force nearest neighbours.',
    design='5/C16',
    technique='symbolic execution of the Python source + Z3 per path (one inductive step, all paths); concrete whole-run sampling',
)

CHECKS['C17'] = dict(
    level='model_checking',
    text='PARTIAL CLAIM - first clause only (no out-of-bounds index). The 47 @jit kernels and their callers (Arm FK / FKLink / FKJoint / '
         'Jacobians for every link index, SP IK / FK, tm conversions) are executed SYMBOLICALLY from their Python source with the valid symbolic '
         'arguments of the C02 / C05 / C06 / C09 / C10 drivers (+ a helper driver): an integer index outside [-n, n) raises IndexError exactly '
         'where NUMBA_BOUNDSCHECK=1 would, on every feasible path including the value-dependent branches (NearZero, pure translation, half '
         'turns) that no concrete input of the test-suite reaches. Per-kernel execution counts and the kernels no driver reaches (quick: the '
         'three IK solvers) are listed in the evidence. Counterexamples are replayed on the interpreted source (NUMBA_DISABLE_JIT=1). The '
         'second clause (compiled kernel = interpreted source for C/F-ordered, sliced, integer-typed arguments) concerns machine code and numba '
         'typing: outside symbolic reach, NOT claimed.',
    design='5/C17',
    technique='symbolic execution of the kernels\' Python source + Z3 path feasibility (bounded: driver shapes, n <= 3 joints); second clause not applicable',
)

NOT_APPLICABLE = {
}

PENDING_REASON = 'check not built yet in this round (engine exists; harness pending) - not claimed'


def main():
    props = [json.loads(l) for l in open(os.path.join(ROOT, 'properties.jsonl'))]
    checks = []
    na = []
    for p in props:
        pid = p['id']
        c = CHECKS.get(pid)
        if c is None:
            na.append(dict(property_id=pid, reason=NOT_APPLICABLE.get(pid, PENDING_REASON)))
            continue
        checks.append(dict(
            property_id=pid,
            quick_cmd='vt/check %s --tier quick' % pid,
            thorough_cmd='vt/check %s --tier thorough' % pid,
            evidence_file='evidence/%s.json' % pid,
            replay_cmd_template='vt/check replay {path}',
            engine=c.get('engine', 'symnp'),
            level_claimed=dict(category=c['level'], text=c['text'], design_ref=c['design']),
            level_note=c.get('note', TRUST),
            technique=c['technique'],
        ))
    m = dict(
        version=1,
        setup_cmd='sh vt/bootstrap.sh',
        hooks=dict(guard='BASIC_ROBOTICS_VERIF', enable='no source hooks are needed: the checks load /repo\'s files '
                   'through vt/loader.py with the numeric environment replaced; BASIC_ROBOTICS_VERIF is reserved and unused',
                   baseline_off_cmd='cd /repo && /venv/bin/python -m pytest -ra -q -p no:cacheprovider --timeout=900 '
                                    '--continue-on-collection-errors',
                   source_commits=[], add_only=True),
        engines=[
            dict(name='symnp', path='vt/', serves_properties=sorted(k for k, v in CHECKS.items() if v.get('engine', 'symnp') == 'symnp'),
                 kind_free_text='home-grown symbolic executor for the repository\'s NumPy/Numba Python source: object arrays '
                                'of exact rational functions, path forking by re-execution, Z3 (nlsat) deciding every branch '
                                'and obligation, replay on the real library'),
            dict(name='crosshair', path='vt/harness/', serves_properties=sorted(k for k, v in CHECKS.items() if v.get('engine') == 'crosshair'),
                 kind_free_text='CrossHair 0.0.110 (symbolic execution of Python on Z3) for the pure-Python router'),
        ],
        checks=checks,
        not_applicable=na,
        notes='See DESIGN.md. Exit codes: 0 held / 1 VIOLATION (replayed) / 3 harness error.',
    )
    json.dump(m, open(os.path.join(ROOT, 'MANIFEST.json'), 'w'), indent=1)
    print('MANIFEST.json: %d checks, %d not_applicable' % (len(checks), len(na)))


if __name__ == '__main__':
    main()
