"""Write seeded/<name>/meta.json from the notes and the recorded sweep results (vt/seed_results.json)."""
import json
import os
import re

ROOT = os.path.dirname(os.path.dirname(os.path.abspath(__file__)))


def main():
    res = json.load(open(os.path.join(ROOT, 'vt', 'seed_results.json')))
    for name in sorted(os.listdir(os.path.join(ROOT, 'seeded'))):
        d = os.path.join(ROOT, 'seeded', name)
        if not os.path.isdir(d):
            continue
        notes = open(os.path.join(d, 'notes.txt')).read() if os.path.exists(os.path.join(d, 'notes.txt')) else ''
        paras = [p.strip() for p in re.split(r'\n(?=Condition|Needs|Manifests|It only|Commands|Unmodified)', notes) if p.strip()]
        what = paras[0] if paras else ''
        needs = ' '.join(p for p in paras[1:] if re.match(r'(Condition|Needs|Manifests|It only)', p))
        cmds = ' '.join(p for p in paras if p.startswith('Commands'))
        r = res.get(name, {})
        meta = dict(
            property=name.split('_')[0],
            mutation=what[:1500],
            needs_to_manifest=needs[:1500] or 'see notes.txt',
            sub_agent_ran=cmds[:1500] or 'see notes.txt',
            confirmed_by_me=r.get('confirmed', 'patch applies to the current tree with `git -C /repo apply`; applied, ran the check(s) below with vt/seedtest.sh, '
                                               'undone with `git -C /repo checkout -- .`; the sub-agent ran the test-suite files touching the changed code (see notes.txt)'),
            checks_run=r.get('runs', []),
            caught_by=r.get('caught_by', []),
            status=r.get('status', 'kept'),
            files=['patch.diff', 'demo.py', 'notes.txt'],
        )
        json.dump(meta, open(os.path.join(d, 'meta.json'), 'w'), indent=1)
    print('meta.json written for', len(res), 'seeds')


if __name__ == '__main__':
    main()
