"""C01 - rigid-motion primitives: exp/log inverse, inverse/adjoint homomorphic (DESIGN 5, C01)."""
from ..run import Case
from .. import hlib as H

PROPERTY = 'C01'
LEVEL = 'model_checking'
MODULE = 'modern_robotics_numba.modern_high_performance'
ENCODED = ['NearZero', 'Norm', 'Normalize', 'VecToso3', 'so3ToVec', 'AxisAng3', 'MatrixExp3', 'SafeTrace',
           'SafeClip', 'MatrixLog3', 'RpToTrans', 'TransToRp', 'TransInv', 'VecTose3', 'se3ToVec', 'Adjoint',
           'ad', 'AxisAng6', 'MatrixExp6', 'MatrixLog6']
BOUNDS = {
    'quick': 'rotation vectors w = theta*u, |u| = 1, theta in [0, 2pi] (log round trip [0, pi)); twists with '
             '|v| <= 1e3; T from an arbitrary unit quaternion and |p| <= 1e3; every feasible path of the source',
    'thorough': 'same input space as quick (it is already the whole group within the stated magnitude bounds); '
                'adds non-unit-axis parametrisation w = (w1,w2,w3) and larger solver time-outs',
}
OUTSIDE = ['translation part of exp6(log6(T)) for rotation angles strictly inside (0, 1e-6) (rotation part is inside)',
           'IEEE-754 rounding, in particular the conditioning of theta/(2 sin theta) as theta -> pi (theta = pi '
           'exactly, the half-turn branch, is inside)', 'magnitudes beyond the stated bounds']
ASSUMPTIONS = ['tolerances as in the property: 5e-6 absolute']
EXPLORER_DEFAULTS = {'quick': dict(prove_timeout_ms=30000, branch_timeout_ms=10000, time_budget_s=240),
                     'thorough': dict(prove_timeout_ms=120000, branch_timeout_ms=20000, time_budget_s=1500)}
TOL = '5e-6'


def _mr(w):
    return w.lib(MODULE)


def _rotvec(w, th_hi=None):
    th = w.angle('th', 0, th_hi if th_hi is not None else 2 * w.pi, taylor=True)
    u = w.unit3('u')
    return th, u, [th * u[0], th * u[1], th * u[2]]


def h_exp3(w):
    """(a) MatrixExp3 returns a proper rotation, equal to Rodrigues' formula (up to the cut-off)"""
    mr = _mr(w)
    th, u, wv = _rotvec(w)
    R = mr.MatrixExp3(mr.VecToso3(w.array(wv)))
    w.witness()
    w.prove_shape(R, (3, 3), 'exp3 shape')
    w.prove_close(R.T @ R, H.eye(w, 3), TOL, 'exp3 orthonormal')
    w.prove_close(H.det3(R), 1, TOL, 'exp3 det +1')
    w.prove_close(R - H.rodrigues(w, u, th), w.np.zeros((3, 3)), TOL, 'exp3 = rodrigues (within the cut-off tolerance)')


def h_log3_exp3(w):
    """(b) so3ToVec(MatrixLog3(MatrixExp3([w]))) = w for |w| < pi"""
    mr = _mr(w)
    th, u, wv = _rotvec(w, w.pi)
    w.assume(th < w.pi)
    R = mr.MatrixExp3(mr.VecToso3(w.array(wv)))
    v = mr.so3ToVec(mr.MatrixLog3(R))
    w.witness()
    w.prove_close(v, wv, TOL, 'log3(exp3(w)) = w')


def _halfturn(w, name='n'):
    return H.halfturn(w, name)


def h_exp3_log3(w):
    """(c) MatrixExp3(MatrixLog3(R)) = R for every R in SO(3) with trace > -1 (identity and generic
    branches); the lemma obligation shows that trace <= -1 happens exactly for half turns, which
    h_exp3_log3_halfturn covers"""
    mr = _mr(w)
    q = w.unit_quat('q')
    R = H.quat_R(w, q)
    tr = R[0][0] + R[1][1] + R[2][2]
    w.prove((~(tr <= -1)) | (q[3] == 0), 'lemma: trace <= -1 only for half turns (qw = 0)')
    w.assume(tr > -1)
    L = mr.MatrixLog3(R)
    w.witness()
    w.prove_close(L, -L.T, TOL, 'log3 skew')
    R2 = mr.MatrixExp3(L)
    w.prove_close(R2, R, TOL, 'exp3(log3(R)) = R')


def h_exp3_log3_halfturn(w):
    """(c) half-turn branch of the logarithm with its three sub-branches"""
    mr = _mr(w)
    R, n = _halfturn(w)
    L = mr.MatrixLog3(R)
    w.witness()
    w.prove_close(L, -L.T, TOL, 'log3 skew (half turn)')
    R2 = mr.MatrixExp3(L)
    w.prove_close(R2, R, TOL, 'exp3(log3(R)) = R (half turn)')


def h_exp6(w):
    """(a) MatrixExp6 of a twist is a proper rigid transform and equals the closed form"""
    mr = _mr(w)
    th, u, wv = _rotvec(w)
    if w.params.get('closed_form'):
        w.assume(th >= w.const('1e-6'))
    v = w.reals('v', 3, -1000, 1000)
    V = w.array(wv + [th * v[0], th * v[1], th * v[2]])
    T = mr.MatrixExp6(mr.VecTose3(V))
    w.witness()
    w.prove_shape(T, (4, 4), 'exp6 shape')
    w.prove_close(T[3, :], [0, 0, 0, 1], 0, 'exp6 last row')
    R = T[0:3, 0:3]
    w.prove_close(R.T @ R, H.eye(w, 3), TOL, 'exp6 rotation orthonormal')
    w.prove_close(H.det3(R), 1, TOL, 'exp6 det +1')
    w.prove_close(R, mr.MatrixExp3(mr.VecToso3(w.array(wv))), TOL, 'exp6 rotation block = exp3')
    if w.params.get('closed_form'):
        w.prove_close(T, H.exp6_oracle(w, u, th, v), w.params.get('ptol', '5e-3'), 'exp6 = closed form')


def h_log6_exp6(w):
    """(b) se3ToVec(MatrixLog6(MatrixExp6([V]))) = V for rotation angle below pi (incl. pure translation)"""
    mr = _mr(w)
    th, u, wv = _rotvec(w, w.pi)
    w.assume(th < w.pi)
    v = w.reals('v', 3, -1000, 1000)
    V = wv + v
    T = mr.MatrixExp6(mr.VecTose3(w.array(V)))
    V2 = mr.se3ToVec(mr.MatrixLog6(T))
    w.witness()
    w.prove_close(V2[0:3], V[0:3], TOL, 'log6(exp6(V)) rotation part')
    w.prove_close(V2[3:6], V[3:6], w.params.get('ptol', '5e-3'), 'log6(exp6(V)) translation part')


def h_log6_exp6_translation(w):
    """(b) pure translations"""
    mr = _mr(w)
    v = w.reals('v', 3, -1000, 1000)
    V = [0, 0, 0] + v
    T = mr.MatrixExp6(mr.VecTose3(w.array(V)))
    w.prove_close(T, H.T_of(w, H.eye(w, 3), v), 0, 'exp6 pure translation')
    V2 = mr.se3ToVec(mr.MatrixLog6(T))
    w.witness()
    w.prove_close(V2, V, 0, 'log6(exp6(V)) pure translation')


def h_exp6_log6(w):
    """(c) MatrixExp6(MatrixLog6(T)) = T, T = (R(u, theta), p) for EVERY axis u and angle theta in [0, pi)
    (axis-angle is onto SO(3)); includes the identity branch and the cut-off window"""
    mr = _mr(w)
    th = w.angle('th', 0, w.pi, taylor=True)
    w.assume(th < w.pi)
    u = w.unit3('u')
    R = H.rodrigues(w, u, th)
    p = w.reals('p', 3, -1000, 1000)
    T = H.T_of(w, R, p)
    L = mr.MatrixLog6(T)
    w.witness()
    w.prove_close(L[3, :], [0, 0, 0, 0], 0, 'log6 last row')
    T2 = mr.MatrixExp6(L)
    w.prove_close(T2[0:3, 0:3], R, TOL, 'exp6(log6(T)) rotation')
    if th == 0 or th >= w.const('1e-6') or w.params.get('window_translation'):
        # inside the open window 0 < theta < 1e-6 the translation differs by up to theta*|p|/2 <= 8.7e-4;
        # bounding (1 - theta*cot(theta/2)/2) is beyond nlsat in budget: stated as outside the claim
        w.prove_close(T2[0:3, 3], p, w.params.get('ptol', '5e-3'), 'exp6(log6(T)) translation')
    w.prove_close(T2[3, :], [0, 0, 0, 1], 0, 'exp6(log6(T)) last row')


def h_exp6_log6_quat(w):
    """(c) same with T from an arbitrary unit quaternion; rotation angle in [1e-6, pi) (the window is covered
    by h_exp6_log6)"""
    mr = _mr(w)
    T, R, p, q = H.pose(w, 'T')
    tr = R[0][0] + R[1][1] + R[2][2]
    w.assume(tr > -1)
    w.assume((tr - 1) / 2 <= 1 - w.const('5e-13'))
    L = mr.MatrixLog6(T)
    w.witness()
    T2 = mr.MatrixExp6(L)
    w.prove_close(T2[0:3, 0:3], R, TOL, 'exp6(log6(T)) rotation (quaternion)')
    w.prove_close(T2[0:3, 3], p, w.params.get('ptol', '5e-3'), 'exp6(log6(T)) translation (quaternion)')


def h_exp6_log6_halfturn(w):
    """(c) SE(3) with a rotation by exactly pi"""
    mr = _mr(w)
    R, n = _halfturn(w)
    p = w.reals('p', 3, -1000, 1000)
    T = H.T_of(w, R, p)
    L = mr.MatrixLog6(T)
    w.witness()
    T2 = mr.MatrixExp6(L)
    w.prove_close(T2[0:3, 0:3], R, TOL, 'exp6(log6(T)) rotation (half turn)')
    w.prove_close(T2[0:3, 3], p, w.params.get('ptol', '5e-3'), 'exp6(log6(T)) translation (half turn)')
    w.prove_close(T2[3, :], [0, 0, 0, 1], 0, 'exp6(log6(T)) last row (half turn)')


def h_hat_vee(w):
    """(d) hat / vee are mutually inverse"""
    mr = _mr(w)
    a = w.reals('a', 3)
    V = w.reals('V', 6)
    w.prove_eq(mr.so3ToVec(mr.VecToso3(w.array(a))), a, 'vee(hat(a)) = a')
    S3 = H.hat(w, a)
    w.prove_eq(mr.VecToso3(mr.so3ToVec(S3)), S3, 'hat(vee(A)) = A')
    w.prove_eq(mr.VecToso3(w.array(a)), S3, 'hat = skew matrix')
    w.prove_eq(mr.se3ToVec(mr.VecTose3(w.array(V))), V, 'vee6(hat6(V)) = V')
    S6 = H.se3_hat(w, V)
    w.prove_eq(mr.VecTose3(w.array(V)), S6, 'hat6 = se3 matrix')
    w.prove_eq(mr.VecTose3(mr.se3ToVec(S6)), S6, 'hat6(vee6(A)) = A')
    R = H.quat_R(w, w.unit_quat('q'))
    p = w.reals('p', 3)
    T = mr.RpToTrans(R, w.array(p))
    w.prove_eq(T, H.T_of(w, R, p), 'RpToTrans')
    R2, p2 = mr.TransToRp(T)
    w.prove_eq(R2, R, 'TransToRp R')
    w.prove_eq(p2, p, 'TransToRp p')
    w.prove_eq(mr.RotInv(R) @ R, H.eye(w, 3), 'RotInv')


def h_group(w):
    """(e) TransInv / Adjoint / ad agree with the group structure"""
    mr = _mr(w)
    T1, R1, p1, _ = H.pose(w, 'A')
    T2, R2, p2, _ = H.pose(w, 'B')
    V = w.reals('V', 6)
    W = w.reals('W', 6)
    I4, I6 = H.eye(w, 4), H.eye(w, 6)
    Ti = mr.TransInv(T1)
    w.prove_eq(Ti @ T1, I4, 'inv(T) T = I')
    w.prove_eq(T1 @ Ti, I4, 'T inv(T) = I')
    w.prove_eq(Ti, H.T_inv(w, T1), 'TransInv = closed form')
    A1, A2 = mr.Adjoint(T1), mr.Adjoint(T2)
    w.prove_eq(A1, H.Ad_of(w, T1), 'Adjoint = [[R,0],[pR,R]]')
    w.prove_eq(mr.Adjoint(T1 @ T2), A1 @ A2, 'Ad(T1 T2) = Ad(T1) Ad(T2)')
    w.prove_eq(mr.Adjoint(Ti) @ A1, I6, 'Ad(inv T) Ad(T) = I')
    lhs = T1 @ mr.VecTose3(w.array(V)) @ Ti
    rhs = mr.VecTose3(A1 @ w.array(V))
    w.prove_eq(lhs, rhs, 'T [V] inv(T) = [Ad(T) V]')
    # ad: [adV] W = vee([V][W] - [W][V])
    hv, hw = H.se3_hat(w, V), H.se3_hat(w, W)
    br = hv @ hw - hw @ hv
    w.prove_eq(mr.ad(w.array(V)) @ w.array(W), [br[2][1], br[0][2], br[1][0], br[0][3], br[1][3], br[2][3]],
               'ad(V) W = Lie bracket')


def h_exp3_free(w):
    """thorough: rotation vector given by three free components (non-unit parametrisation)"""
    mr = _mr(w)
    wv = w.reals('w', 3, -7, 7)
    R = mr.MatrixExp3(mr.VecToso3(w.array(wv)))
    w.witness()
    w.prove_close(R.T @ R, H.eye(w, 3), TOL, 'exp3 orthonormal (free components)')
    w.prove_close(H.det3(R), 1, TOL, 'exp3 det +1 (free components)')


def cases(tier, seed):
    cs = [
        Case('exp3', h_exp3),
        Case('log3_exp3', h_log3_exp3),
        Case('exp3_log3', h_exp3_log3),
        Case('exp3_log3_halfturn', h_exp3_log3_halfturn),
        Case('exp6', h_exp6),
        Case('exp6_closed_form', h_exp6, params=dict(closed_form=True)),
        Case('log6_exp6', h_log6_exp6),
        Case('log6_exp6_translation', h_log6_exp6_translation),
        Case('exp6_log6', h_exp6_log6),
        Case('exp6_log6_quat', h_exp6_log6_quat),
        Case('exp6_log6_halfturn', h_exp6_log6_halfturn),
        Case('hat_vee', h_hat_vee),
        Case('group', h_group),
    ]
    if tier == 'thorough':
        cs.append(Case('exp3_free', h_exp3_free))
    return cs
