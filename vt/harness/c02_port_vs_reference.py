"""C02 - the Numba port computes what the reference Modern Robotics library computes (DESIGN 5, C02).
Translation validation: port and vendored reference are loaded by the same loader and run on the SAME symbolic
arguments in the same path; same exception behaviour, same shape, equal values."""
import os
from fractions import Fraction as F
from ..run import Case, ROOT
from .. import hlib as H

PROPERTY = 'C02'
LEVEL = 'translation_validation'
PORT = 'modern_robotics_numba.modern_high_performance'
REF_PATH = os.path.join(ROOT, 'vendor', 'modern_robotics', 'core.py')
ENCODED = ['every public function shared by basic_robotics.modern_robotics_numba and modern_robotics 1.1.1 (vendor/modern_robotics/core.py): '
           'list computed at run time, see coverage.programs_compared']
BOUNDS = {
    'quick': 'rigid-body algebra: fully symbolic arguments (as C01); FK / Jacobians: the book chains (incl. a prismatic joint) with n <= 3 and '
             'symbolic joint values; dynamics: the book 3-link arm truncated to n = 1, 2 with symbolic theta, dtheta, ddtheta, tau, g, Ftip '
             '(mass matrix also n = 3); time scalings symbolic in (Tf, t); trajectories N = 2..3, intRes 1; IK solvers: 1R chain, iteration cap rewritten '
             'to 2 in BOTH libraries (AST cut) with the pseudo-inverse an arbitrary matrix shared by both sides',
    'thorough': 'dynamics also with n = 3 everywhere, trajectories N up to 4 and intRes 2',
}
OUTSIDE = ['bit-level float agreement (1e-9 relative) is replaced by exact agreement over the reals', 'chains of 4..7 joints for the dynamics',
           'ProjectToSO3/ProjectToSE3 (SVD) beyond "same SVD gives same projection"', 'IK trajectories beyond 2 iterations (both loops are '
           'memoryless iterations of the compared step)']
ASSUMPTIONS = ['np.linalg.pinv / svd are arbitrary but identical for both libraries (memoised stub)', 'np.linalg.inv: exact adjugate, n <= 3, '
               'non-singular', 'summary mode for Exp/Log inside Screw/Cartesian trajectories (both libraries; the primitives themselves are compared unsummarised)']
EXPLORER_DEFAULTS = {'quick': dict(prove_timeout_ms=30000, time_budget_s=900, max_paths=80, max_decisions=120),
                     'thorough': dict(prove_timeout_ms=120000, time_budget_s=1200, max_paths=400, max_decisions=200)}
TOL = '1e-9'


def libs(w, summary=False, cap=None):
    """(port module, reference module)"""
    if w.symbolic:
        env = w.env
        from .. import loader as L
        if cap is not None and not getattr(env, '_c02_patched', False):
            env._c02_patched = True
            env.ast_patches.setdefault(PORT, []).append(L.SetConstant('IKinBody', 'maxiterations', cap))
        port = env.get(PORT)
        patches = [L.SetConstant('IKinBody', 'maxiterations', cap), L.SetConstant('IKinSpace', 'maxiterations', cap)] if cap is not None else None
        ref = env.load_file('refmr', REF_PATH, patches)
        if summary:
            from .. import summary as SM
            SM.install(env)
            if not getattr(ref, '_vt_summary', False):
                ref._vt_summary = True
                for nm in ('MatrixLog3', 'MatrixExp3', 'MatrixLog6', 'MatrixExp6'):
                    setattr(ref, nm, getattr(port, nm))
        # nondeterminism used only by the plotting tail of SimulateControl
        env.np.random.hook[0] = lambda lo, hi, size=None: F(1, 2)
        return port, ref
    import importlib
    import sys
    os.environ.setdefault('MPLBACKEND', 'Agg')
    port = importlib.import_module('basic_robotics.' + PORT)
    vend = os.path.join(ROOT, 'vendor')
    if vend not in sys.path:
        sys.path.insert(0, vend)
    ref = importlib.import_module('modern_robotics.core')
    return port, ref


def same(w, a, b, label, tol=TOL):
    if isinstance(b, (tuple, list)) and not hasattr(b, 'shape'):
        ok = w.prove(isinstance(a, (tuple, list)) and len(a) == len(b), label + ': same container / length')
        if ok:
            for i, (x, y) in enumerate(zip(a, b)):
                same(w, x, y, '%s[%d]' % (label, i), tol)
        return
    if (hasattr(a, 'z') and hasattr(a, 'atoms') and not hasattr(a, 'n')) or (hasattr(b, 'z') and hasattr(b, 'atoms') and not hasattr(b, 'n')):
        # symbolic booleans: same truth value on every input of the path
        w.prove(a == b, label + ': same truth value')
        return
    if isinstance(b, (bool,)) or (hasattr(b, 'dtype') and getattr(b.dtype, 'kind', '') == 'b' and getattr(b, 'shape', None) == ()):
        w.prove(bool(a) == bool(b), label + ': same truth value')
        return
    w.np  # noqa
    sa, sb = tuple(getattr(a, 'shape', ())), tuple(getattr(b, 'shape', ()))
    w.prove(sa == sb, label + ': same shape', 'port %s reference %s' % (sa, sb))
    if sa == sb:
        w.prove_close(a, b, tol, label + ': same values')


# ---------------------------------------------------------------------------------------------------------------------
# argument families
# ---------------------------------------------------------------------------------------------------------------------

def _rotvec(w, hi=None):
    th = w.angle('th', 0, hi if hi is not None else 2 * w.pi, taylor=True)
    u = w.unit3('u')
    return th, u, [th * u[0], th * u[1], th * u[2]]


def h_alg(w):
    port, ref = libs(w)
    f = w.params['f']
    base = {'MatrixLog3_halfturn': 'MatrixLog3', 'DistanceToSO3_general': 'DistanceToSO3'}.get(f, f)
    P, R = getattr(port, base), getattr(ref, base)
    arr = w.array
    if f == 'NearZero':
        z = w.real('z', -1, 1)
        args = [(z,)]
    elif f == 'Normalize':
        v = w.reals('v', 3, -10, 10)
        w.assume(v[0] * v[0] + v[1] * v[1] + v[2] * v[2] >= w.const('1e-6'))
        args = [(arr(v),)]
    elif f in ('RotInv', 'MatrixLog3', 'TestIfSO3', 'DistanceToSO3'):
        q = w.unit_quat('q')
        Rm = H.quat_R(w, q)
        if f == 'MatrixLog3':
            w.assume(Rm[0][0] + Rm[1][1] + Rm[2][2] > -1)
        args = [(Rm,)]
    elif f == 'MatrixLog3_halfturn':
        Rm, n = H.halfturn(w)
        args = [(Rm,)]
    elif f in ('VecToso3', 'AxisAng3', 'MatrixExp3'):
        th, u, wv = _rotvec(w)
        if f == 'AxisAng3':
            w.assume(th >= w.const('1e-6'))
        args = [(arr(wv),)] if f != 'MatrixExp3' else [(port.VecToso3(arr(wv)),)]
    elif f == 'so3ToVec':
        a = w.reals('a', 3)
        args = [(H.hat(w, a),)]
    elif f == 'RpToTrans':
        args = [(H.quat_R(w, w.unit_quat('q')), arr(w.reals('p', 3, -1000, 1000)))]
    elif f in ('TransToRp', 'TransInv', 'Adjoint', 'TestIfSE3', 'DistanceToSE3'):
        T, _, _, _ = H.pose(w, 'T')
        args = [(T,)]
    elif f == 'MatrixLog6':
        th, u, wv = _rotvec(w, w.pi)
        w.assume(th < w.pi)
        T = H.T_of(w, H.rodrigues(w, u, th), w.reals('p', 3, -1000, 1000))
        args = [(T,)]
    elif f in ('VecTose3', 'ad'):
        args = [(arr(w.reals('V', 6, -100, 100)),)]
    elif f == 'se3ToVec':
        args = [(H.se3_hat(w, w.reals('V', 6, -100, 100)),)]
    elif f == 'ScrewToAxis':
        args = [(arr(w.reals('q', 3, -10, 10)), arr(w.unit3('s')), w.real('h', -5, 5))]
    elif f == 'AxisAng6':
        th, u, wv = _rotvec(w)
        v = w.reals('v', 3, -100, 100)
        w.assume(H.OR(th >= w.const('1e-6'), v[0] * v[0] + v[1] * v[1] + v[2] * v[2] >= w.const('1e-6')))
        args = [(arr(wv + v),)]
    elif f == 'MatrixExp6':
        th, u, wv = _rotvec(w)
        v = w.reals('v', 3, -1000, 1000)
        args = [(port.VecTose3(arr(wv + v)),)]
    elif f == 'DistanceToSO3_general':
        m = w.reals('m', 9, -2, 2)
        args = [(arr(m).reshape((3, 3)),)]
        P, R = port.DistanceToSO3, ref.DistanceToSO3
    else:
        raise AssertionError(f)
    w.witness()
    for a in args:
        a_ref = tuple(x.copy() if hasattr(x, 'copy') else x for x in a)
        a_port = tuple(x.copy() if hasattr(x, 'copy') else x for x in a)
        r_ref = R(*a_ref)
        r_port = P(*a_port)
        same(w, r_port, r_ref, f)


# book examples ---------------------------------------------------------------------------------------------------------

def _book_fk(w, space=True):
    c = (lambda v: F(v)) if w.symbolic else float
    M = [[-1, 0, 0, 0], [0, 1, 0, 6], [0, 0, -1, 2], [0, 0, 0, 1]]
    if space:
        cols = [[0, 0, 1, 4, 0, 0], [0, 0, 0, 0, 1, 0], [0, 0, -1, -6, 0, c('-0.1')]]
    else:
        cols = [[0, 0, -1, 2, 0, 0], [0, 0, 0, 0, 1, 0], [0, 0, 1, 0, 0, c('0.1')]]
    return w.array(M), w.array(cols).T


def _book_jac(w):
    c = (lambda v: F(v)) if w.symbolic else float
    cols = [[0, 0, 1, 0, c('0.2'), c('0.2')], [1, 0, 0, 2, 0, 3], [0, 1, 0, 0, 2, 1], [1, 0, 0, c('0.2'), c('0.3'), c('0.4')]]
    return w.array(cols).T


def _thetas(w, n, name='t'):
    out = []
    eps = w.const('1e-6')
    for i in range(n):
        t = w.angle('%s%d' % (name, i), -w.pi, w.pi)
        if w.symbolic:
            w.assume(H.OR(t >= eps, t <= -eps))
        elif abs(t) < 1e-6:
            from ..world import HarnessReject
            raise HarnessReject('window')
        out.append(t)
    return out


def h_fk(w):
    port, ref = libs(w)
    f = w.params['f']
    n = w.params.get('n', 3)
    if f in ('FKinSpace', 'FKinBody'):
        M, S_ = _book_fk(w, f == 'FKinSpace')
        th = _thetas(w, 3)[:n]
        w.witness()
        same(w, getattr(port, f)(M.copy(), S_[:, :n].copy(), w.array(th)), getattr(ref, f)(M.copy(), S_[:, :n].copy(), w.array(th)), f)
    else:
        S_ = _book_jac(w)[:, :n]
        th = _thetas(w, n)
        w.witness()
        same(w, getattr(port, f)(S_.copy(), w.array(th)), getattr(ref, f)(S_.copy(), w.array(th)), f)


def _book_dyn(w, n):
    c = (lambda v: F(v)) if w.symbolic else float
    M01 = [[1, 0, 0, 0], [0, 1, 0, 0], [0, 0, 1, c('0.089159')], [0, 0, 0, 1]]
    M12 = [[0, 0, 1, c('0.28')], [0, 1, 0, c('0.13585')], [-1, 0, 0, 0], [0, 0, 0, 1]]
    M23 = [[1, 0, 0, 0], [0, 1, 0, c('-0.1197')], [0, 0, 1, c('0.395')], [0, 0, 0, 1]]
    M34 = [[1, 0, 0, 0], [0, 1, 0, 0], [0, 0, 1, c('0.14225')], [0, 0, 0, 1]]
    G = [[c('0.010267'), c('0.010267'), c('0.00666'), c('3.7'), c('3.7'), c('3.7')],
         [c('0.22689'), c('0.22689'), c('0.0151074'), c('8.393'), c('8.393'), c('8.393')],
         [c('0.0494433'), c('0.0494433'), c('0.004095'), c('2.275'), c('2.275'), c('2.275')]]
    S_ = [[1, 0, 1, 0, 1, 0], [0, 1, 0, c('-0.089'), 0, 0], [0, 1, 0, c('-0.089'), 0, c('0.425')]]
    Ms = [M01, M12, M23, M34]
    Mlist = w.array(Ms[:n] + [Ms[n]])
    Glist = w.array([[[G[k][i] if i == j else 0 for j in range(6)] for i in range(6)] for k in range(n)])
    Slist = w.array(S_[:n]).T
    return Mlist, Glist, Slist


def h_dyn(w):
    port, ref = libs(w)
    f = w.params['f']
    n = w.params['n']
    Mlist, Glist, Slist = _book_dyn(w, n)
    th = _thetas(w, n)
    dth = w.reals('d', n, -10, 10)
    ddth = w.reals('dd', n, -10, 10)
    tau = w.reals('tau', n, -100, 100)
    g = w.reals('g', 3, -10, 10)
    Ft = w.reals('F', 6, -100, 100)
    A = w.array
    w.witness()
    geo = lambda: (Mlist.copy(), Glist.copy(), Slist.copy())
    if f == 'InverseDynamics':
        a = lambda: (A(th), A(dth), A(ddth), A(g), A(Ft)) + geo()
    elif f == 'MassMatrix':
        a = lambda: (A(th),) + geo()
    elif f == 'VelQuadraticForces':
        a = lambda: (A(th), A(dth)) + geo()
    elif f == 'GravityForces':
        a = lambda: (A(th), A(g)) + geo()
    elif f == 'EndEffectorForces':
        a = lambda: (A(th), A(Ft)) + geo()
    elif f == 'ForwardDynamics':
        a = lambda: (A(th), A(dth), A(tau), A(g), A(Ft)) + geo()
    elif f == 'EulerStep':
        dt = w.real('dt', w.const('1e-4'), 1)
        a = lambda: (A(th), A(dth), A(ddth), dt)
    elif f == 'ComputedTorque':
        eint = w.reals('e', n, -1, 1)
        thd = w.reals('thd', n, -3, 3)
        dthd = w.reals('dthd', n, -3, 3)
        ddthd = w.reals('ddthd', n, -3, 3)
        Kp, Ki, Kd = w.real('Kp', 0, 50), w.real('Ki', 0, 50), w.real('Kd', 0, 50)
        a = lambda: (A(th), A(dth), A(eint), A(g)) + geo() + (A(thd), A(dthd), A(ddthd), Kp, Ki, Kd)
    else:
        raise AssertionError(f)
    same(w, getattr(port, f)(*a()), getattr(ref, f)(*a()), f, w.params.get('tol', TOL))


def h_traj(w):
    f = w.params['f']
    port, ref = libs(w, summary=f in ('ScrewTrajectory', 'CartesianTrajectory'))
    A = w.array
    if f in ('CubicTimeScaling', 'QuinticTimeScaling'):
        Tf = w.real('Tf', w.const('0.1'), 100)
        t = w.real('t', 0, 100)
        w.assume(t <= Tf)
        w.witness()
        same(w, getattr(port, f)(Tf, t), getattr(ref, f)(Tf, t), f)
        return
    N, method = w.params['N'], w.params['method']
    Tf = w.real('Tf', w.const('0.1'), 100)
    if f == 'JointTrajectory':
        a0, a1 = w.reals('a', 3, -3, 3), w.reals('b', 3, -3, 3)
        w.witness()
        same(w, port.JointTrajectory(A(a0), A(a1), Tf, N, method), ref.JointTrajectory(A(a0), A(a1), Tf, N, method), f)
        return
    X0, _, _, _ = H.pose(w, 'X', 10)
    X1, _, _, _ = H.pose(w, 'Y', 10)
    w.witness()
    same(w, getattr(port, f)(X0.copy(), X1.copy(), Tf, N, method), getattr(ref, f)(X0.copy(), X1.copy(), Tf, N, method), f)


def h_dyn_traj(w):
    port, ref = libs(w)
    f = w.params['f']
    n, N, intRes = w.params['n'], w.params['N'], w.params.get('intRes', 1)
    Mlist, Glist, Slist = _book_dyn(w, n)
    A = w.array
    g = w.reals('g', 3, -10, 10)
    geo = lambda: (Mlist.copy(), Glist.copy(), Slist.copy())
    if f == 'InverseDynamicsTrajectory':
        thm = [[w.angle('t%d_%d' % (k, i), -3, 3) for i in range(n)] for k in range(N)]
        eps = w.const('1e-6')
        for row in thm:
            for t in row:
                if w.symbolic:
                    w.assume(H.OR(t >= eps, t <= -eps))
        dm = [w.reals('d%d_' % k, n, -5, 5) for k in range(N)]
        ddm = [w.reals('dd%d_' % k, n, -5, 5) for k in range(N)]
        Fm = [w.reals('F%d_' % k, 6, -10, 10) for k in range(N)]
        w.witness()
        a = lambda: (A(thm), A(dm), A(ddm), A(g), A(Fm)) + geo()
        same(w, port.InverseDynamicsTrajectory(*a()), ref.InverseDynamicsTrajectory(*a()), f)
        return
    th = _thetas(w, n)
    dth = w.reals('d', n, -5, 5)
    dt = w.real('dt', w.const('1e-3'), w.const('0.1'))
    Fm = [w.reals('F%d_' % k, 6, -10, 10) for k in range(N)]
    if f == 'ForwardDynamicsTrajectory':
        taum = [w.reals('tau%d_' % k, n, -20, 20) for k in range(N)]
        w.witness()
        a = lambda: (A(th), A(dth), A(taum), A(g), A(Fm)) + geo() + (dt, intRes)
        same(w, port.ForwardDynamicsTrajectory(*a()), ref.ForwardDynamicsTrajectory(*a()), f, '1e-7')
    elif f == 'SimulateControl':
        thd = [w.reals('thd%d_' % k, n, -3, 3) for k in range(N)]
        dthd = [w.reals('dthd%d_' % k, n, -3, 3) for k in range(N)]
        ddthd = [w.reals('ddthd%d_' % k, n, -3, 3) for k in range(N)]
        gt = w.reals('gt', 3, -10, 10)
        Kp, Ki, Kd = w.real('Kp', 0, 50), w.real('Ki', 0, 50), w.real('Kd', 0, 50)
        w.witness()
        a = lambda: (A(th), A(dth), A(g), A(Fm)) + geo() + (A(thd), A(dthd), A(ddthd), A(gt), Mlist.copy(), Glist.copy(), Kp, Ki, Kd, dt, intRes)
        r_ref = ref.SimulateControl(*a())
        r_port = port.SimulateControl(*a())
        same(w, r_port, r_ref, f, '1e-7')


def h_ik(w):
    """one capped run of the Newton iteration with a shared arbitrary pseudo-inverse: same iterate, same verdict;
    and a reported success meets the requested tolerances"""
    f = w.params['f']
    port, ref = libs(w, summary=True, cap=2)
    n = w.params.get('n', 2)
    M, S_ = _book_fk(w, f == 'IKinSpace')
    S_ = S_[:, w.params.get('cols', list(range(n)))].copy()
    A = w.array
    th0 = _thetas(w, n, 's')
    T, _, _, _ = H.pose(w, 'G', 10)
    eomg = w.real('eomg', w.const('1e-4'), w.const('0.1'))
    ev = w.real('ev', w.const('1e-4'), w.const('0.1'))
    if w.symbolic:
        from .. import symnp, sym as S
        memo = {}

        def pinv(a):
            key = tuple(S.pkey(S.Sym.lift(x).n) for x in a.reshape(-1))
            if key not in memo:
                k = len(memo)
                vals = [[S.Sym.atom(S.new_atom('pinv%d_%d_%d' % (k, i, j), 'var')) for j in range(a.shape[0])] for i in range(a.shape[1])]
                memo[key] = symnp.array(vals)
            return memo[key].copy()
        symnp.PINV_HOOK[0] = pinv
    w.witness()
    try:
        if f == 'IKinSpace':
            r_ref = ref.IKinSpace(S_.copy(), M.copy(), T.copy(), A(th0), eomg, ev)
            r_port = port.IKinSpace(S_.copy(), M.copy(), T.copy(), A(th0), eomg, ev, 2) if w.symbolic else \
                port.IKinSpace(S_.copy(), M.copy(), T.copy(), A(th0), eomg, ev)
        else:
            r_ref = ref.IKinBody(S_.copy(), M.copy(), T.copy(), A(th0), eomg, ev)
            r_port = port.IKinBody(S_.copy(), M.copy(), T.copy(), A(th0), eomg, ev)
    finally:
        if w.symbolic:
            symnp.PINV_HOOK[0] = None
    w.prove(bool(r_port[1]) == bool(r_ref[1]), f + ': same success verdict')
    if not w.symbolic and not (r_port[1] and r_ref[1]):
        return          # concrete replay: equality is claimed when both converge
    same(w, r_port[0], r_ref[0], f + ' joint vector', '1e-7')


def h_ik_concrete(w):
    """random IK problems on the real libraries (the Newton iteration itself is not symbolic in the quick tier):
    same verdict; a reported success meets the tolerances; when both converge they return the same joints"""
    import numpy as np
    f = w.params['f']
    port, ref = libs(w)
    n = 3 + int(w.real('nj', 0, 3.99))
    rng = np.random.RandomState(int(w.real('seed', 0, 1e6)))
    S_ = np.zeros((6, n))
    for i in range(n):
        if rng.rand() < 0.2:
            v = rng.randn(3)
            S_[3:, i] = v / np.linalg.norm(v)
        else:
            a = rng.randn(3)
            a /= np.linalg.norm(a)
            q = rng.uniform(-1, 1, 3)
            S_[:3, i] = a
            S_[3:, i] = np.cross(q, a)
    M = np.eye(4)
    M[:3, 3] = rng.uniform(-1, 1, 3)
    th_goal = rng.uniform(-2, 2, n)
    fkf = port.FKinSpace if f == 'IKinSpace' else port.FKinBody
    T = fkf(M, S_, th_goal)
    th0 = th_goal + rng.uniform(-0.3, 0.3, n)
    eomg, ev = 10 ** rng.uniform(-6, -2), 10 ** rng.uniform(-6, -2)
    rp = getattr(port, f)(S_.copy(), M.copy(), T.copy(), th0.copy(), eomg, ev)
    rr = getattr(ref, f)(S_.copy(), M.copy(), T.copy(), th0.copy(), eomg, ev)
    w.prove(bool(rp[1]) == bool(rr[1]), f + ': same success verdict')
    if rp[1]:
        Tp = fkf(M, S_, np.array(rp[0], dtype=float))
        if f == 'IKinSpace':
            V = port.Adjoint(Tp) @ port.se3ToVec(port.MatrixLog6(port.TransInv(Tp) @ T))
        else:
            V = port.se3ToVec(port.MatrixLog6(port.TransInv(Tp) @ T))
        w.prove(np.linalg.norm(V[:3]) <= eomg * (1 + 1e-9) + 1e-12, f + ': reported success meets the orientation tolerance')
        w.prove(np.linalg.norm(V[3:]) <= ev * (1 + 1e-9) + 1e-12, f + ': reported success meets the position tolerance')
    if rp[1] and rr[1]:
        same(w, np.array(rp[0]), np.array(rr[0]), f + ' joint vector', 1e-7)


def h_project(w):
    """SVD projections: concrete sampling on matrices near SO(3)/SE(3) (what the functions are documented for)"""
    import numpy as np
    port, ref = libs(w)
    q = w.unit_quat('q')
    R = np.array(H.quat_R(w, q), dtype=float)
    noise = np.array(w.reals('n', 9, -0.02, 0.02)).reshape((3, 3))
    mat = R + noise
    same(w, port.ProjectToSO3(mat.copy()), ref.ProjectToSO3(mat.copy()), 'ProjectToSO3')
    # far from SO(3) (negative determinant): the reference still returns, so must the port
    far = mat @ np.diag([1.0, 1.0, -1.0])
    same(w, port.ProjectToSO3(far.copy()), ref.ProjectToSO3(far.copy()), 'ProjectToSO3 (det < 0 input)')
    T = np.eye(4)
    T[:3, :3] = mat
    T[:3, 3] = w.reals('p', 3, -10, 10)
    T[3, :3] = w.reals('r', 3, -0.01, 0.01)
    same(w, port.ProjectToSE3(T.copy()), ref.ProjectToSE3(T.copy()), 'ProjectToSE3')


def shared_functions():
    """computed at run time from the two sources"""
    import ast
    port_src = open(os.path.join(os.environ.get('VERIF_REPO', '/repo'), 'basic_robotics', 'modern_robotics_numba', 'modern_high_performance.py')).read()
    ref_src = open(REF_PATH).read()
    pf = {n.name for n in ast.parse(port_src).body if isinstance(n, ast.FunctionDef)}
    rf = {n.name for n in ast.parse(ref_src).body if isinstance(n, ast.FunctionDef)}
    return sorted(pf & rf)


COVER = {}


def cases(tier, seed):
    cs = []
    alg = ['NearZero', 'Normalize', 'RotInv', 'VecToso3', 'so3ToVec', 'AxisAng3', 'MatrixExp3', 'MatrixLog3', 'MatrixLog3_halfturn', 'RpToTrans',
           'TransToRp', 'TransInv', 'VecTose3', 'se3ToVec', 'Adjoint', 'ScrewToAxis', 'AxisAng6', 'MatrixExp6', 'MatrixLog6', 'ad',
           'DistanceToSO3', 'DistanceToSO3_general', 'DistanceToSE3', 'TestIfSO3', 'TestIfSE3']
    for f in alg:
        cs.append(Case('alg_' + f, h_alg, params=dict(f=f)))
    for f in ('FKinSpace', 'FKinBody'):
        for n in (1, 2, 3):
            cs.append(Case('fk_%s_n%d' % (f, n), h_fk, params=dict(f=f, n=n)))
    for f in ('JacobianSpace', 'JacobianBody'):
        for n in (1, 2, 3, 4):
            cs.append(Case('fk_%s_n%d' % (f, n), h_fk, params=dict(f=f, n=n)))
    dyn = ['InverseDynamics', 'MassMatrix', 'VelQuadraticForces', 'GravityForces', 'EndEffectorForces', 'ForwardDynamics', 'EulerStep', 'ComputedTorque']
    for f in dyn:
        ns = [1, 2] + ([3] if (f in ('MassMatrix', 'EulerStep', 'GravityForces', 'EndEffectorForces') or tier == 'thorough') else [])
        for n in ns:
            cs.append(Case('dyn_%s_n%d' % (f, n), h_dyn, params=dict(f=f, n=n)))
    for f in ('CubicTimeScaling', 'QuinticTimeScaling'):
        cs.append(Case('traj_' + f, h_traj, params=dict(f=f)))
    for f in ('JointTrajectory', 'ScrewTrajectory', 'CartesianTrajectory'):
        for N in ((2, 3) if tier == 'quick' else (2, 3, 4)):
            for method in (3, 5):
                cs.append(Case('traj_%s_N%d_m%d' % (f, N, method), h_traj, params=dict(f=f, N=N, method=method)))
    for f in ('InverseDynamicsTrajectory', 'ForwardDynamicsTrajectory', 'SimulateControl'):
        for (n, N, ir) in ([(1, 2, 1)] + ([(2, 2, 1)] if tier == 'thorough' or f != 'SimulateControl' else []) + ([(1, 3, 2)] if tier == 'thorough' or f == 'InverseDynamicsTrajectory' else [])):
            cs.append(Case('dyntraj_%s_n%d_N%d_r%d' % (f, n, N, ir), h_dyn_traj, params=dict(f=f, n=n, N=N, intRes=ir)))
    for f in ('IKinSpace', 'IKinBody'):
        cs.append(Case('ik_%s_concrete' % f, h_ik_concrete, params=dict(f=f), concrete_only=True, concrete_samples=40))
        if tier == 'thorough':
            cs.append(Case('ik_%s_1R' % f, h_ik, params=dict(f=f, n=1, cols=[0])))
            cs.append(Case('ik_%s_2R' % f, h_ik, params=dict(f=f, n=2, cols=[0, 2])))
            cs.append(Case('ik_%s_RP' % f, h_ik, params=dict(f=f, n=2, cols=[0, 1])))
    cs.append(Case('project_svd', h_project, concrete_only=True, concrete_samples=10))
    return cs


def extra_evidence(ev, results):
    shared = shared_functions()
    names = set()
    for r in results:
        nm = r.get('name', '')
        for f in shared:
            if ('_%s' % f) in nm and (nm.endswith(f) or ('_%s_' % f) in nm):
                names.add(f)
    names |= {'ProjectToSO3', 'ProjectToSE3'} & set(shared)
    cov = ev['coverage']
    cov['programs'] = len(names)
    cov['programs_shared'] = len(shared)
    cov['programs_compared'] = sorted(names)
    cov['programs_not_compared'] = sorted(set(shared) - names)
    cov['disagreements_checked'] = cov.get('traces_validated_against_impl', 0)
