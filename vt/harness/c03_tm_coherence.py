"""C03 - a transform's 4x4 matrix and six-vector always describe the same pose (DESIGN 5, C03)."""
from ..run import Case
from .. import hlib as H

PROPERTY = 'C03'
LEVEL = 'model_checking'
ENCODED = ['general.faser_transform.tm: __init__ (all forms), from3DOF/from6DOF/from7DOF, transformSqueezedCopy, TAAtoTM, '
           'TMtoTAA, sTM, sTAA, set, __setitem__, __getitem__, setQuat/getQuat, angleMod, copy, inv, __matmul__, __add__, '
           '__sub__, __mul__, __rmul__, __truediv__, __abs__, __floordiv__, gTM, gTAA',
           'general.basic_helpers.localToGlobal/globalToLocal/angleMod', 'mr.LocalToGlobal/GlobalToLocal/TransInv/TransToRp']
BOUNDS = {
    'quick': 'INDUCTIVE STEP: from an arbitrary coherent transform (six-vector (p, theta*u), |p| <= 1e3, theta in [0, 7] - '
             'i.e. beyond 2*pi so that the angle-wrapping paths are reached - matrix = its exponential) one operation of the '
             'property\'s list with symbolic arguments (valid poses, scalars, every index 0..5, the slices [0:3] and [3:6]) '
             're-establishes coherence of the receiver and of every returned transform; BASE: every constructor form yields a '
             'coherent transform. One step from an arbitrary coherent state covers histories of every length.',
    'thorough': 'same, plus the writers of the matrix side (sTM, setQuat, inv, @) re-run with the real, unsummarised logarithm',
}
OUTSIDE = ['floating-point rounding', 'tm // tm and tm // ndarray (least-squares matrix division)',
           'element magnitudes beyond the stated bounds']
ASSUMPTIONS = ['"exponential" in the invariant is the library\'s own MatrixExp3, whose correctness is C01\'s obligation',
               'summary mode for Exp/Log of composed rotations (contracts from C01)']
EXPLORER_DEFAULTS = {'quick': dict(prove_timeout_ms=30000, time_budget_s=900, max_paths=400),
                     'thorough': dict(prove_timeout_ms=120000, time_budget_s=1200, max_paths=3000)}
TOL = '5e-6'


def _libs(w, summary=True):
    if w.symbolic:
        if summary:
            from .. import summary as SM
            SM.install(w.env)
        from .. import stubs
        stubs.install_quat_hook()
    g = w.lib('general')
    return g.tm, w.lib('general.basic_helpers'), w.lib('modern_robotics_numba.modern_high_performance')


def coherent(w, mr, t, label):
    """the invariant Coh(t)"""
    TAA, TM = t.TAA, t.TM
    ok = w.prove_shape(TAA, (6, 1), label + ': six-vector is 6x1')
    ok = w.prove_shape(TM, (4, 4), label + ': matrix is 4x4') and ok
    if not ok:
        return
    w.prove_close(TM[3, :], [0, 0, 0, 1], TOL, label + ': last row 0 0 0 1')
    w.prove_close(TM[0:3, 3], [TAA[0, 0], TAA[1, 0], TAA[2, 0]], TOL, label + ': translation column = first three entries')
    rot = w.array([TAA[3, 0], TAA[4, 0], TAA[5, 0]])
    w.prove_close(TM[0:3, 0:3], mr.MatrixExp3(mr.VecToso3(rot)), TOL, label + ': rotation block = exp(last three entries)')
    # getters agree with the attributes
    w.prove_close(t.gTM(), TM, 0, label + ': gTM')
    w.prove_close(t.gTAA(), TAA, 0, label + ': gTAA')


def _state(w, tm, name, thmax=7):
    th = w.angle(name + 'th', 0, thmax)
    u = w.unit3(name + 'u')
    p = w.reals(name + 'p', 3, -1000, 1000)
    return tm([p[0], p[1], p[2], th * u[0], th * u[1], th * u[2]]), p, th, u


def _valid_T(w, name):
    """a valid pose as a 4x4 matrix (arbitrary unit quaternion)"""
    T, R, p, q = H.pose(w, name)
    return T, R, p, q


OPS = ['sTM', 'sTAA_col', 'sTAA_flat', 'set', 'setitem', 'setitem_slice_pos', 'setitem_slice_rot', 'setitem_slice_col',
       'setQuat', 'angleMod', 'copy', 'inv', 'matmul', 'matmul_array', 'add_tm', 'add_scalar', 'add_array', 'sub_tm',
       'sub_scalar', 'sub_array', 'mul_scalar', 'rmul_scalar', 'div_scalar', 'abs', 'floordiv_scalar', 'localToGlobal',
       'globalToLocal', 'fsr_angleMod']


def h_step(w):
    op = w.params['op']
    tm, bh, mr = _libs(w, w.params.get('summary', True))
    t, p, th, u = _state(w, tm, 'S')
    w.witness()
    coherent(w, mr, t, 'pre-state')
    res = []
    # histories with more than one object: the receiver may itself be a copy (constructor or copy()) of another
    # transform, and other transforms may have been copied from it; none of them may be affected by the operation
    via = w.params.get('via_copy')
    origin = None
    if via == 'ctor':
        origin, t = t, tm(t)
    elif via == 'copy':
        origin, t = t, t.copy()
    bystanders = [('constructor copy', tm(t)), ('copy()', t.copy())]
    if origin is not None:
        bystanders.append(('source of the receiver', origin))
    snapshots = [(b.gTM(), b.gTAA()) for _, b in bystanders]
    if op == 'sTM':
        T, R, pp, q = _valid_T(w, 'M')
        t.sTM(T.copy())
        w.prove_close(t.gTM(), T, TOL, 'sTM then gTM reads back the matrix')
    elif op in ('sTAA_col', 'sTAA_flat'):
        v = w.reals('v', 6, -1000, 1000)
        arr = w.array(v).reshape((6, 1)) if op == 'sTAA_col' else w.array(v)
        t.sTAA(arr)
        w.prove_close(t.gTAA(), w.array(v).reshape((6, 1)), 0, 'sTAA then gTAA reads back the six-vector')
    elif op == 'set':
        x = w.real('x', -1000, 1000)
        i = w.params['index']
        r = t.set(i, x)
        w.prove(r is t, 'set returns the receiver')
        w.prove_close(t[i], x, 0, 'set then t[i]')
    elif op == 'setitem':
        x = w.real('x', -1000, 1000)
        i = w.params['index']
        t[i] = x
        w.prove_close(t[i], x, 0, 't[i] = x then t[i]')
        w.prove_close(t.gTAA()[i, 0], x, 0, 't[i] = x then gTAA')
    elif op in ('setitem_slice_pos', 'setitem_slice_rot'):
        v = w.reals('v', 3, -7, 7)
        sl = slice(0, 3) if op == 'setitem_slice_pos' else slice(3, 6)
        t[sl] = w.array(v)
        w.prove_close(t.gTAA()[sl, 0], v, 0, 't[a:b] = v then gTAA')
    elif op == 'setitem_slice_col':
        v = w.reals('v', 3, -7, 7)
        t[3:6] = w.array(v).reshape((3, 1))
        w.prove_close(t.gTAA()[3:6, 0], v, 0, 't[3:6] = column then gTAA')
    elif op == 'setQuat':
        q = w.unit_quat('q')
        t.setQuat(w.array(q))
        w.prove_close(t.gTM()[0:3, 0:3], H.quat_R(w, q), TOL, 'setQuat then gTM rotation')
        w.prove_close(t.gTM()[0:3, 3], p, 0, 'setQuat keeps the translation')
    elif op == 'angleMod':
        t.angleMod()
    elif op == 'fsr_angleMod':
        r = bh.angleMod(t)
        w.prove(r is t, 'angleMod(tm) returns the transform')
    elif op == 'copy':
        res.append(('copy', t.copy()))
        w.prove_close(res[0][1].gTM(), t.gTM(), 0, 'copy has the same matrix')
    elif op == 'inv':
        res.append(('inv', t.inv()))
    elif op in ('matmul', 'add_tm', 'sub_tm', 'localToGlobal', 'globalToLocal'):
        o, _, _, _ = _state(w, tm, 'O')
        r = {'matmul': lambda: t @ o, 'add_tm': lambda: t + o, 'sub_tm': lambda: t - o,
             'localToGlobal': lambda: bh.localToGlobal(t, o), 'globalToLocal': lambda: bh.globalToLocal(t, o)}[op]()
        res.append((op, r))
        coherent(w, mr, o, 'other operand after ' + op)
    elif op == 'matmul_array':
        T, R, pp, q = _valid_T(w, 'M')
        res.append((op, t @ T))
    elif op in ('add_scalar', 'sub_scalar', 'mul_scalar', 'rmul_scalar', 'div_scalar', 'floordiv_scalar'):
        k = w.real('k', -10, 10)
        if op in ('div_scalar', 'floordiv_scalar'):
            w.assume(H.OR(k >= w.const('1e-3'), k <= -w.const('1e-3')))
        r = {'add_scalar': lambda: t + k, 'sub_scalar': lambda: t - k, 'mul_scalar': lambda: t * k,
             'rmul_scalar': lambda: k * t, 'div_scalar': lambda: t / k, 'floordiv_scalar': lambda: t // k}[op]()
        res.append((op, r))
    elif op in ('add_array', 'sub_array'):
        v = w.reals('v', 6, -10, 10)
        arr = w.array(v) if w.params.get('flat', True) else w.array(v).reshape((6, 1))
        res.append((op, (t + arr) if op == 'add_array' else (t - arr)))
    elif op == 'abs':
        res.append((op, abs(t)))
    else:
        raise AssertionError(op)
    coherent(w, mr, t, 'receiver after ' + op)
    for (bname, b), (tm0, taa0) in zip(bystanders, snapshots):
        w.prove_close(b.gTM(), tm0, 0, '%s: matrix untouched by %s on the other object' % (bname, op))
        w.prove_close(b.gTAA(), taa0, 0, '%s: six-vector untouched by %s on the other object' % (bname, op))
        w.prove_close(b.TM, tm0, 0, '%s: stored matrix untouched by %s' % (bname, op))
    for name, r in res:
        w.prove(isinstance(r, tm), name + ' returns a transform')
        if isinstance(r, tm):
            coherent(w, mr, r, 'result of ' + name)


def h_base(w):
    """every constructor form yields a coherent transform"""
    tm, bh, mr = _libs(w)
    form = w.params['form']
    if form in ('list6', 'array6', 'col6', 'tm', 'obj1', 'list3', 'array3', 'pair', 'matrix'):
        th = w.angle('th', 0, 7)
        u = w.unit3('u')
        p = w.reals('p', 3, -1000, 1000)
        six = [p[0], p[1], p[2], th * u[0], th * u[1], th * u[2]]
        if form == 'list6':
            t = tm(six)
        elif form == 'array6':
            t = tm(w.array(six))
        elif form == 'col6':
            t = tm(w.array(six).reshape((6, 1)))
        elif form == 'tm':
            t = tm(tm(six))
        elif form == 'obj1':
            one = w.np.empty(1, dtype=object)
            one[0] = tm(six)
            t = tm(one)
        elif form == 'list3':
            t = tm(six[3:])
        elif form == 'array3':
            t = tm(w.array(six[3:]))
        elif form == 'pair':
            t = tm([six[:3], six[3:]])
        else:
            t = tm(tm(six).gTM())
    elif form == 'default':
        t = tm()
    elif form == 'quat7':
        q = w.unit_quat('q')
        p = w.reals('p', 3, -1000, 1000)
        t = tm([p[0], p[1], p[2], q[0], q[1], q[2], q[3]])
    elif form in ('rpy6', 'rpy3'):
        lim = w.pi - w.const('1e-3')
        a = [w.angle('r%d' % i, -lim, lim) for i in range(3)]
        eps = w.const('1e-6')
        for x in a:
            w.assume(H.OR(x >= eps, x <= -eps))
        p = w.reals('p', 3, -1000, 1000)
        t = tm([p[0], p[1], p[2], a[0], a[1], a[2]], True) if form == 'rpy6' else tm([a[0], a[1], a[2]], True)
    else:
        raise AssertionError(form)
    w.witness()
    coherent(w, mr, t, 'constructed from ' + form)


FORMS = ['default', 'list6', 'array6', 'col6', 'tm', 'obj1', 'list3', 'array3', 'pair', 'matrix', 'quat7', 'rpy6', 'rpy3']


def cases(tier, seed):
    cs = [Case('base_' + f, h_base, params=dict(form=f)) for f in FORMS]
    for op in OPS:
        if op in ('set', 'setitem'):
            for i in range(6):
                cs.append(Case('step_%s_%d' % (op, i), h_step, params=dict(op=op, index=i)))
        elif op in ('add_array', 'sub_array'):
            cs.append(Case('step_%s_flat' % op, h_step, params=dict(op=op, flat=True)))
            cs.append(Case('step_%s_col' % op, h_step, params=dict(op=op, flat=False)))
        else:
            cs.append(Case('step_' + op, h_step, params=dict(op=op)))
    for op in ('sTM', 'sTAA_col', 'setQuat', 'angleMod', 'setitem_slice_rot'):
        for via in ('ctor', 'copy'):
            cs.append(Case('step_%s_on_%s_copy' % (op, via), h_step, params=dict(op=op, via_copy=via)))
    for via in ('ctor', 'copy'):
        cs.append(Case('step_set_4_on_%s_copy' % via, h_step, params=dict(op='set', index=4, via_copy=via)))
        cs.append(Case('step_setitem_1_on_%s_copy' % via, h_step, params=dict(op='setitem', index=1, via_copy=via)))
    if tier == 'thorough':
        for op in ('sTM', 'setQuat', 'inv'):
            cs.append(Case('step_%s_real_log' % op, h_step, params=dict(op=op, summary=False)))
    return cs
