"""C04 - transform algebra is SE(3); every constructor form means the same pose (DESIGN 5, C04)."""
from ..run import Case
from .. import hlib as H

PROPERTY = 'C04'
LEVEL = 'model_checking'
ENCODED = ['general.faser_transform.tm.__init__/from3DOF/from6DOF/from7DOF/transformSqueezedCopy/TAAtoTM/TMtoTAA',
           'tm.__matmul__', 'tm.inv', 'tm.getQuat/setQuat', 'tm.gTM/gTAA/copy',
           'general.basic_helpers.localToGlobal/globalToLocal', 'mr.LocalToGlobal/GlobalToLocal', 'mr.TransInv',
           'mr.MatrixExp3/MatrixLog3 (real for single poses; summarised with the C01 contracts under composition)']
BOUNDS = {
    'quick': 'poses (p, theta*u): |p| <= 1e3, |u| = 1, theta in [0, pi - 1e-3] symbolic; triples A, B, C; every feasible '
             'path (cut-off window included); constructor forms on one symbolic pose',
    'thorough': 'same input space; adds the real (unsummarised) exp/log under one level of composition',
}
OUTSIDE = ['rpy constructor with an elementary angle strictly inside (0, 1e-6) in magnitude',
           'products whose rotation angle is exactly pi are handled through the Exp/Log summary (the half-turn '
           'branch of the real logarithm is C01\'s obligation)', 'floating-point rounding']
ASSUMPTIONS = ['summary mode: Exp(Log R) = R, Exp(-Log R) = R^T for orthonormal R, Log(Exp w) = w for |w| < pi '
               '(the contracts proved for the real code by C01 on the same tree)',
               'scipy Rotation: as_matrix = documented R(q/|q|); from_matrix(M).as_quat() = some unit q with R(q) = M']
EXPLORER_DEFAULTS = {'quick': dict(prove_timeout_ms=30000, time_budget_s=600, max_paths=300),
                     'thorough': dict(prove_timeout_ms=120000, time_budget_s=1200, max_paths=2000)}
TOL = '5e-6'


def _pose_args(w, name, plim=1000):
    th = w.angle(name + 'th', 0, w.pi - w.const('1e-3'), taylor=True)
    u = w.unit3(name + 'u')
    p = w.reals(name + 'p', 3, -plim, plim)
    return p, th, u, [p[0], p[1], p[2], th * u[0], th * u[1], th * u[2]]


def _libs(w, summary=True):
    if summary and w.symbolic:
        from .. import summary as SM
        SM.install(w.env)
    if w.symbolic:
        from .. import stubs
        stubs.install_quat_hook()
    return w.lib('general.faser_transform').tm, w.lib('general.basic_helpers')


def h_group(w):
    tm, bh = _libs(w)
    A = tm(_pose_args(w, 'A')[3])
    B = tm(_pose_args(w, 'B')[3])
    C = tm(_pose_args(w, 'C')[3])
    I4 = H.eye(w, 4)
    w.witness()
    AB = A @ B
    w.prove_close(AB.gTM(), A.gTM() @ B.gTM(), TOL, '(A@B).TM = A.TM B.TM')
    Ai = A.inv()
    w.prove_close(Ai.gTM() @ A.gTM(), I4, TOL, 'inv(A) A = I')
    w.prove_close(A.gTM() @ Ai.gTM(), I4, TOL, 'A inv(A) = I')
    w.prove_close((Ai @ A).gTM(), I4, TOL, '(inv(A) @ A).TM = I')
    w.prove_close(((A @ B) @ C).gTM(), (A @ (B @ C)).gTM(), TOL, 'associativity')
    w.prove_close(AB.gTM()[3, :], [0, 0, 0, 1], TOL, 'last row')
    w.prove_shape(AB.gTAA(), (6, 1), 'TAA shape')


def h_frames(w):
    tm, bh = _libs(w)
    R_ = tm(_pose_args(w, 'R')[3])
    X = tm(_pose_args(w, 'X')[3])
    w.witness()
    L = bh.localToGlobal(R_, X)
    w.prove_close(L.gTM(), (R_ @ X).gTM(), TOL, 'localToGlobal(ref, rel) = ref @ rel')
    G = bh.globalToLocal(R_, X)
    w.prove_close(G.gTM(), (R_.inv() @ X).gTM(), TOL, 'globalToLocal(ref, x) = inv(ref) @ x')
    w.prove_close(bh.globalToLocal(R_, L).gTM(), X.gTM(), TOL, 'globalToLocal(ref, localToGlobal(ref, x)) = x')
    w.prove_close(bh.localToGlobal(R_, G).gTM(), X.gTM(), TOL, 'localToGlobal(ref, globalToLocal(ref, x)) = x')


def h_ctor_forms(w):
    """one pose, every documented constructor form"""
    tm, bh = _libs(w, summary=w.params.get('summary', True))
    p, th, u, six = _pose_args(w, 'P')
    np = w.np
    ref = tm(list(six))
    T = ref.gTM()
    w.witness()
    if w.params.get('oracle', True):
        w.prove_close(T, H.T_of(w, H.rodrigues(w, u, th), p), TOL, '6-list = [exp(theta u), p]')
    w.prove_close(tm(w.array(six)).gTM(), T, TOL, '6-array = 6-list')
    w.prove_close(tm(w.array(six).reshape((6, 1))).gTM(), T, TOL, '6x1 array = 6-list')
    w.prove_close(tm(ref).gTM(), T, TOL, 'tm(tm) = tm')
    w.prove_close(tm(ref.gTM()).gTM(), T, TOL, '4x4 matrix = 6-list')
    w.prove_close(tm([[p[0], p[1], p[2]], [six[3], six[4], six[5]]]).gTM(), T, TOL,
                  'nested [position, rotation] pair = 6-list')
    one = np.empty(1, dtype=object)
    one[0] = ref
    w.prove_close(tm(one).gTM(), T, TOL, 'one-element array of a transform = that transform')
    r3 = tm([six[3], six[4], six[5]])
    w.prove_close(r3.gTM(), H.T_of(w, T[0:3, 0:3], [0, 0, 0]), TOL, '3-list rotation')
    w.prove_close(tm(w.array([six[3], six[4], six[5]])).gTM(), r3.gTM(), TOL, '3-array rotation')
    w.prove_close(ref.copy().gTM(), T, TOL, 'copy')


def h_ctor_quat(w):
    tm, bh = _libs(w)
    q = w.unit_quat('q')
    p = w.reals('p', 3, -1000, 1000)
    t = tm([p[0], p[1], p[2], q[0], q[1], q[2], q[3]])
    T = H.T_of(w, H.quat_R(w, q), p)
    w.witness()
    w.prove_close(t.gTM(), T, TOL, 'position + quaternion list')
    w.prove_close(tm(w.array([p[0], p[1], p[2], q[0], q[1], q[2], q[3]])).gTM(), T, TOL, 'position + quaternion array')
    t2 = t.copy()
    t2.setQuat(t2.getQuat())
    w.prove_close(t2.gTM(), t.gTM(), TOL, 'setQuat(getQuat()) is the identity (TM)')
    t3 = tm(T)
    w.prove_close(t3.gTM(), T, TOL, '4x4 of the same pose')


def _rot(w, axis, a):
    c, s = w.cos(a), w.sin(a)
    if axis == 0:
        return w.array([[1, 0, 0], [0, c, -s], [0, s, c]])
    if axis == 1:
        return w.array([[c, 0, s], [0, 1, 0], [-s, 0, c]])
    return w.array([[c, -s, 0], [s, c, 0], [0, 0, 1]])


def h_ctor_rpy(w):
    tm, bh = _libs(w)
    lim = w.pi - w.const('1e-3')
    a = [w.angle('r%d' % i, -lim, lim, taylor=True) for i in range(3)]
    eps = w.const('1e-6')
    for x in a:
        # each elementary angle outside the open cut-off window (0, 1e-6): inside it the library's
        # exponential is the identity and differs from Rx/Ry/Rz by up to 1e-6 (covered for a single
        # rotation by ctor_forms); bounding the triple product there is beyond nlsat in budget
        w.assume(H.OR(x >= eps, x <= -eps))
    p = w.reals('p', 3, -1000, 1000)
    R = _rot(w, 0, a[0]) @ _rot(w, 1, a[1]) @ _rot(w, 2, a[2])
    T = H.T_of(w, R, p)
    w.witness()
    w.prove_close(tm([p[0], p[1], p[2], a[0], a[1], a[2]], True).gTM(), T, TOL, 'rpy 6-list = Rx Ry Rz')
    w.prove_close(tm(w.array([p[0], p[1], p[2], a[0], a[1], a[2]]), True).gTM(), T, TOL, 'rpy 6-array = Rx Ry Rz')
    w.prove_close(tm([a[0], a[1], a[2]], True).gTM(), H.T_of(w, R, [0, 0, 0]), TOL, 'rpy 3-list = Rx Ry Rz')


def cases(tier, seed):
    cs = [Case('group', h_group), Case('frames', h_frames), Case('ctor_forms', h_ctor_forms),
          Case('ctor_quat', h_ctor_quat), Case('ctor_rpy', h_ctor_rpy)]
    if tier == 'thorough':
        cs.append(Case('ctor_forms_real_explog', h_ctor_forms, params=dict(summary=False)))
    return cs
