"""C05 - arm forward kinematics is base * product of exponentials, through any history (DESIGN 5, C05)."""
from ..run import Case
from .. import hlib as H
from .. import arms as A

PROPERTY = 'C05'
LEVEL = 'model_checking'
ENCODED = ['kinematics.arm_model.Arm: __init__, initialize, thetaProtector, FK, FKJoint, getJointTransforms, move, '
           'setArbitraryHome, restoreOriginalEE, randomPos, _helper_determine_eef_to_last_joint', 'Robot.getEEPos/getBasePos',
           'fsr.angleMod/transformByVector/twistToScrew/localToGlobal/globalToLocal', 'mr.FKinSpace/MatrixExp6/VecTose3/Adjoint/SafeCopy']
BOUNDS = {
    'quick': 'arms: the 6R test arm and 1R/2R/3R chains with generic rational unit axes (geometry concrete and rational, '
             'construction bases I, B1, B2: rational rotation + translation); joint vectors symbolic in [-2pi, 2pi]^n with '
             '|theta_i| >= 1e-6 (cut-off window of the exponential belongs to C01); ALL operation histories of length <= 2 '
             'over {FK, move(B1), move(B2), setArbitraryHome, restoreOriginalEE, randomPos} with symbolic joint arguments on the 2R arm built at I and at B1, plus selected longer ones',
    'thorough': 'same with ALL histories of length <= 3 and selected ones of length 4',
}
OUTSIDE = ['IK inside histories (IK is C07; its solvers are numeric)', 'floating point', 'the five URDF models (C13 loads them)',
           'joint values with |theta_i| * |w_i| inside (0, 1e-6)']
ASSUMPTIONS = ['summary mode for Exp/Log of composed rotations (C01 contracts)', 'random.uniform returns an arbitrary value in [a, b]']
EXPLORER_DEFAULTS = {'quick': dict(prove_timeout_ms=30000, time_budget_s=900, max_paths=200, max_decisions=80),
                     'thorough': dict(prove_timeout_ms=120000, time_budget_s=1200, max_paths=1500, max_decisions=120)}
TOL = '1e-7'


def _limits(w, arm, n):
    return [-w.pi] * n, [w.pi] * n


def _in_limits(w, n, prefix='t'):
    return A.sym_thetas(w, n, prefix, -w.pi, w.pi)


def _coherent(w, arm, ctx, B, M, label, theta_state=None):
    """reported tool pose, base pose, joint-frame poses and the pose implied by the stored joint state agree"""
    ee = arm.getEEPos().gTM()
    w.prove_close(arm.getBasePos().gTM(), B, TOL, label + ': reported base pose')
    if theta_state is not None:
        exp = A.poe(w, ctx, theta_state, B, M)
        w.prove_close(ee, exp, TOL, label + ': reported tool pose = base * PoE(stored joints) * home')
        jt = arm.getJointTransforms()
        w.prove_close(jt[-1].gTM(), exp, TOL, label + ': last joint-frame pose = tool pose')
        w.prove_close(jt[0].gTM(), B, TOL, label + ': first joint-frame pose = base pose')
        w.prove_close(arm.FK(None).gTM(), exp, TOL, label + ': FK() with defaulted joints refers to the stored state')


def h_history(w):
    """one history; params: arm, base, ops (list of op names)"""
    name, base = w.params['arm'], w.params['base']
    arm, ctx = A.make_arm(w, name, base)
    tm = ctx['tm']
    n = ctx['n']
    B, M = ctx['B'], ctx['M']
    M0 = M
    w.witness()
    state = [0] * n          # stored joint vector after construction (FK(zeros))
    _coherent(w, arm, ctx, B, M, 'after construction', state)
    k = 0
    for op in w.params['ops']:
        k += 1
        lab = 'step %d %s' % (k, op)
        if op == 'FK':
            th = _in_limits(w, n, 'a%d_' % k)
            T = arm.FK(w.array(th))
            w.prove_close(T.gTM(), A.poe(w, ctx, th, B, M), TOL, lab + ': FK = base * PoE * home')
            state = th
        elif op.startswith('move:'):
            B = A.base_matrix(w, op.split(':')[1])
            arm.move(tm(B.copy()))
        elif op == 'setArbitraryHome':
            # new tool pose given in space for the current configuration
            cur = A.poe(w, ctx, state, B, M)
            Hn = A.base_matrix(w, w.params.get('tool', 'B3'))
            arm.setArbitraryHome(tm(Hn.copy()))
            # home' = home * inv(current) * new
            M_global = (B @ M) @ H.T_inv(w, cur) @ Hn
            M = H.T_inv(w, B) @ M_global
        elif op == 'restoreOriginalEE':
            arm.restoreOriginalEE()
            M = M0
        elif op == 'randomPos':
            draws = _in_limits(w, n, 'r%d_' % k)
            it = iter(draws)
            if w.symbolic:
                w.env.stubs['random'].hook[0] = lambda a, b: next(it)
                T = arm.randomPos()
            else:
                import random as _r
                orig = _r.uniform
                _r.uniform = lambda a, b: next(it)
                try:
                    T = arm.randomPos()
                finally:
                    _r.uniform = orig
            w.prove_close(T.gTM(), A.poe(w, ctx, draws, B, M), TOL, lab + ': randomPos = FK of the drawn joints')
            state = draws
        else:
            raise AssertionError(op)
        _coherent(w, arm, ctx, B, M, 'after ' + lab, state)
    # finally FK at a fresh symbolic joint vector
    th = _in_limits(w, n, 'f')
    T = arm.FK(w.array(th))
    w.prove_close(T.gTM(), A.poe(w, ctx, th, B, M), TOL, 'final FK = base * PoE * home')
    for i in range(n):
        J = arm.FKJoint(w.array(th), i).gTM()
        if i == n - 1:
            # the library defines the last joint frame as the tool frame
            w.prove_close(J, A.poe(w, ctx, th, B, M), TOL, 'joint frame %d (= tool frame)' % i)
        else:
            w.prove_close(J[0:3, 0:3], A.poe(w, ctx, th[:i + 1], B, H.eye(w, 4), upto=i + 1)[0:3, 0:3], TOL,
                          'joint frame %d orientation' % i)


def h_clamp(w):
    """joint vectors outside the limits are evaluated as if clamped"""
    name, base = w.params['arm'], w.params['base']
    arm, ctx = A.make_arm(w, name, base)
    n = ctx['n']
    th = A.sym_thetas(w, n, 't', -2 * w.pi, 2 * w.pi)
    lo, hi = -w.pi, w.pi
    w.witness()
    T = arm.FK(w.array(th))
    cl = [A.clamp(w, t, lo, hi) for t in th]
    w.prove_close(T.gTM(), A.poe(w, ctx, cl), TOL, 'FK of an out-of-limits vector = FK of the clamped vector')
    _coherent(w, arm, ctx, ctx['B'], ctx['M'], 'after clamped FK', cl)


OPSET = ['FK', 'move:B1', 'move:B2', 'setArbitraryHome', 'restoreOriginalEE', 'randomPos']


def cases(tier, seed):
    import itertools
    cs = []
    hist = [('2R', 'B1', []), ('3R', 'B2', []), ('test6R', 'I', []), ('test6R', 'B1', []), ('test6R', 'I', ['move:B2']),
            ('3R', 'B1', ['FK', 'move:I']), ('3R', 'I', ['randomPos']), ('1R', 'B2', ['FK', 'setArbitraryHome', 'move:B1'])]
    # every history of length <= 2 (thorough: <= 3) over the operation set, on the 2R arm built at I and at B1
    maxlen = 2 if tier == 'quick' else 3
    for base in ('I', 'B1'):
        for L in range(0, maxlen + 1):
            for ops in itertools.product(OPSET, repeat=L):
                if base == 'B1' and 'move:B1' in ops[:1]:
                    continue
                hist.append(('2R', base, list(ops)))
    if tier == 'thorough':
        hist += [('3R', 'B1', ['FK', 'move:B2', 'setArbitraryHome', 'FK']), ('test6R', 'B1', ['move:B2', 'FK']),
                 ('3R', 'I', ['setArbitraryHome', 'move:B1', 'restoreOriginalEE', 'randomPos']),
                 ('2R', 'B2', ['move:B1', 'move:I', 'move:B2', 'FK'])]
    seen = set()
    for arm, base, ops in hist:
        nm = 'hist_%s_%s_%s' % (arm, base, '-'.join(o.replace(':', '') for o in ops) or 'construct')
        if nm in seen:
            continue
        seen.add(nm)
        cs.append(Case(nm, h_history, params=dict(arm=arm, base=base, ops=ops)))
    for arm, base in [('2R', 'I'), ('2R', 'B1'), ('3R', 'I')]:
        cs.append(Case('clamp_%s_%s' % (arm, base), h_clamp, params=dict(arm=arm, base=base)))
    return cs
