"""C06 - arm Jacobians are the derivative of forward kinematics; statics is its transpose (DESIGN 5, C06)."""
from fractions import Fraction as F
from ..run import Case
from .. import hlib as H
from .. import arms as A

PROPERTY = 'C06'
LEVEL = 'model_checking'
ENCODED = ['kinematics.arm_model.Arm: jacobian, jacobianBody, jacobianLink, jacobianEETrans, FK, FKLink, FKJoint, getJointTransforms, '
           'staticForcesWithLinkMasses, move, setArbitraryHome, restoreOriginalEE', 'kinematics.robot_model.Robot: velocityAtEndEffector, '
           'staticForces, staticForcesBody', 'mr.JacobianSpace/JacobianBody/FKinSpace/Adjoint/MatrixExp6', 'Wrench operators, fsr.makeWrench']
BOUNDS = {
    'quick': 'arms 2R, 3R and the 6R test arm (rational geometry) built at I and B1, in four states (fresh, after move, after a tool change, '
             'after tool change + restore); ALL joint values symbolic in [-pi, pi] with |theta_i| >= 1e-6; rates, wrenches, link masses symbolic; '
             'the derivative of FK is the FORMAL derivative of the symbolic FK output of the real code (exact, instead of finite differences)',
    'thorough': 'same plus 1R and more base/state combinations',
}
OUTSIDE = ['numericalJacobian = analytic up to O(delta^2): a truncation-error statement, not encodable exactly (concrete sampling only)',
           'staticForcesInv(staticForces(F)) = F at full rank: needs a symbolic 6x6 (pseudo-)inverse, beyond reach (concrete sampling only)',
           'floating point']
ASSUMPTIONS = ['formal differentiation: d/dtheta sin = cos, d/dtheta cos = -sin on the polynomial normal form']
EXPLORER_DEFAULTS = {'quick': dict(prove_timeout_ms=30000, time_budget_s=900, max_paths=100, max_decisions=100),
                     'thorough': dict(prove_timeout_ms=120000, time_budget_s=1200, max_paths=500, max_decisions=150)}
TOL = '1e-6'


def _prepare(w):
    """arm in the requested state; returns arm, ctx, B, M (oracle state)"""
    name, base, state = w.params['arm'], w.params['base'], w.params['state']
    arm, ctx = A.make_arm(w, name, base)
    tm = ctx['tm']
    B, M = ctx['B'], ctx['M']
    n = ctx['n']
    if state in ('moved', 'moved_tool'):
        B = A.base_matrix(w, 'B2')
        arm.move(tm(B.copy()))
    if state in ('tool', 'moved_tool', 'tool_restored'):
        cur = A.poe(w, ctx, [0] * n, B, M)
        Hn = A.base_matrix(w, 'B3')
        arm.setArbitraryHome(tm(Hn.copy()))
        Mg = (B @ M) @ H.T_inv(w, cur) @ Hn
        Mnew = H.T_inv(w, B) @ Mg
        if state == 'tool_restored':
            arm.restoreOriginalEE()
        else:
            M = Mnew
    return arm, ctx, B, M


def _dT(w, fk, th, i):
    """dT/dtheta_i: formal derivative (symbolic) / Richardson-extrapolated central differences (concrete replay)"""
    if w.symbolic:
        return w.diff(fk(th), th[i])
    import numpy as np

    def cd(h):
        a, b = list(th), list(th)
        a[i] += h
        b[i] -= h
        return (np.array(fk(a), dtype=float) - np.array(fk(b), dtype=float)) / (2 * h)
    h = 2e-3
    return (4 * cd(h / 2) - cd(h)) / 3


def _vee(X):
    return [X[2][1], X[0][2], X[1][0], X[0][3], X[1][3], X[2][3]]


def h_jacobians(w):
    arm, ctx, B, M = _prepare(w)
    n = ctx['n']
    th = A.sym_thetas(w, n, 't', -w.pi, w.pi)
    w.witness()
    fk = lambda q: arm.FK(w.array(list(q))).gTM()
    T = fk(th)
    w.prove_close(T, A.poe(w, ctx, th, B, M), TOL, 'FK = base * PoE * home (state %s)' % w.params['state'])
    Ti = H.T_inv(w, T)
    Js = arm.jacobian(w.array(th))
    w.prove_shape(Js, (6, n), 'space Jacobian is 6 x n')
    Jb = arm.jacobianBody(w.array(th))
    AdTi = H.Ad_of(w, Ti)
    for i in range(n):
        dT = _dT(w, fk, th, i)
        w.prove_close(Js[:, i], _vee(dT @ Ti), TOL, 'space Jacobian column %d = vee(dT/dtheta T^-1)' % i)
        w.prove_close(Jb[:, i], _vee(Ti @ dT), TOL, 'body Jacobian column %d = vee(T^-1 dT/dtheta)' % i)
    w.prove_close(Jb, AdTi @ Js, TOL, 'body Jacobian = Ad(inv(T)) space Jacobian')
    # defaulted joint argument refers to the stored state
    arm.FK(w.array(th))
    w.prove_close(arm.jacobian(), Js, TOL, 'jacobian() with defaulted joints refers to the stored state')
    w.prove_close(arm.jacobianBody(), Jb, TOL, 'jacobianBody() with defaulted joints refers to the stored state')
    # frame-aligned variant: space Jacobian re-expressed in the frame at the tool position with space orientation
    Tp = H.T_of(w, H.eye(w, 3), [T[0][3], T[1][3], T[2][3]])
    Je = arm.jacobianEETrans(w.array(th))
    w.prove_close(Je, H.Ad_of(w, H.T_inv(w, Tp)) @ Js, TOL, 'jacobianEETrans = Ad(inv(T_position only)) space Jacobian')
    # rates
    qd = w.reals('qd', n, -10, 10)
    V = arm.velocityAtEndEffector(w.array(qd), w.array(th))
    w.prove_close(V, (Js @ w.array(qd)).reshape((6, 1)), TOL, 'velocityAtEndEffector = J qdot')


def h_statics(w):
    arm, ctx, B, M = _prepare(w)
    Wrench = w.lib('general').Wrench
    n = ctx['n']
    th = A.sym_thetas(w, n, 't', -w.pi, w.pi)
    f = w.reals('F', 6, -100, 100)
    qd = w.reals('qd', n, -10, 10)
    w.witness()
    Fw = Wrench(w.array(f).reshape((6, 1)))
    Js = arm.jacobian(w.array(th))
    tau = arm.staticForces(Fw, w.array(th))
    w.prove_close(H.dot(list(tau.reshape(-1)), qd), H.dot(f, list((Js @ w.array(qd)).reshape(-1))), w.params.get('ptol', '1e-6'),
                  'torque . rate = wrench . twist (space)')
    w.prove_close(tau.reshape(-1), (Js.T @ w.array(f)), TOL, 'staticForces = J^T F')
    Jb = arm.jacobianBody(w.array(th))
    taub = arm.staticForcesBody(Fw, w.array(th))
    T = arm.FK(w.array(th)).gTM()
    w.prove_close(H.dot(list(taub.reshape(-1)), qd), H.dot(f, list((H.Ad_of(w, H.T_inv(w, T)) @ Js @ w.array(qd)).reshape(-1))),
                  w.params.get('ptol', '1e-6'), 'torque . rate = wrench . twist (body)')
    w.prove_close(f, list(Fw.getData().reshape(-1)), 0, 'wrench not modified')


def h_link_masses(w):
    """tau = J^T F + for every joint the moment of the weights of all later links about its axis"""
    arm, ctx, B, M = _prepare(w)
    g = w.lib('general')
    Wrench, tm, fsr = g.Wrench, g.tm, g.fsr
    n = ctx['n']
    spec = ctx['spec']
    th = A.sym_thetas(w, n, 't', -w.pi, w.pi)
    f = w.reals('F', 6, -100, 100)
    masses = [0] + w.reals('m', n, w.const('0.1'), 50)
    cgs_local = [[0, 0, 0]] + [[F(1, 10) * (i + 1), F(-1, 5), F(3, 10)] for i in range(n)]
    if not w.symbolic:
        cgs_local = [[float(x) for x in c] for c in cgs_local]
    arm.setMassProperties(w.array(masses) if not w.symbolic else masses, [tm([c[0], c[1], c[2], 0, 0, 0]) for c in cgs_local])
    grav = [0, 0, F(-981, 100)] if w.symbolic else [0, 0, -9.81]
    arm.setGrav(w.array(grav))
    w.witness()
    Fw = Wrench(w.array(f).reshape((6, 1)))
    tau = arm.staticForcesWithLinkMasses(Fw, w.array(th))
    Js = arm.jacobian(w.array(th))
    # oracle: weight of link j acts at (pose of joint frame j-1) * cg_j ; joint frame j-1 = base * PoE_{<= j-1} * [R_B? , q_{j-1}]
    carry = list(f)
    exp = [None] * n
    for j in range(n, 0, -1):
        q = spec['points'][j - 1]
        home = H.T_of(w, H.eye(w, 3), [A._c(w, x) for x in q])
        if j == n:
            # the library takes the LAST joint frame from the tool frame: tool pose composed with tool->last-joint offset
            Jpose = None
        Jp = A.poe(w, ctx, th[:j], B, home, upto=j)
        c = Jp @ w.array([cgs_local[j][0], cgs_local[j][1], cgs_local[j][2], 1])
        fj = [masses[j] * gk for gk in grav]
        mom = H.cross([c[0], c[1], c[2]], fj)
        Wj = list(mom) + list(fj)
        carry = [carry[k] + Wj[k] for k in range(6)]
        exp[j - 1] = H.dot([Js[k, j - 1] for k in range(6)], carry)
    w.prove_close(tau.reshape(-1), exp, w.params.get('ptol', '1e-5'),
                  'staticForcesWithLinkMasses = J^T F + moments of the later links\' weights about each joint axis')


def h_link_jacobian(w):
    arm, ctx, B, M = _prepare(w)
    tm = ctx['tm']
    n = ctx['n']
    spec = ctx['spec']
    th = A.sym_thetas(w, n, 't', -w.pi, w.pi)
    # link frames: at the joint points, shifted (public setter)
    Ls = []
    for i in range(n):
        q = spec['points'][i]
        Lm = B @ H.T_of(w, H.eye(w, 3), [A._c(w, q[0]) + A._c(w, F(1, 4)), A._c(w, q[1]), A._c(w, q[2]) + A._c(w, F(1, 8))])
        Ls.append(Lm)
    arm.setOrigins(link_homes_global=[tm(L.copy()) for L in Ls])
    w.witness()
    for i in range(n):
        Jl = arm.jacobianLink(i, w.array(th))
        w.prove_shape(Jl, (6, n), 'link Jacobian %d is 6 x n' % i)
        fkl = lambda q, i=i: arm.FKLink(w.array(list(q)), i).gTM()
        Tl = fkl(th)
        # oracle for the link pose: base * PoE_{<= i} * (inv(base) * link home)
        w.prove_close(Tl, A.poe(w, ctx, th[:i + 1], B, H.T_inv(w, B) @ Ls[i], upto=i + 1), TOL, 'FKLink %d = base * PoE(<= i) * link home' % i)
        Tli = H.T_inv(w, Tl)
        for k in range(n):
            if k <= i:
                dT = _dT(w, fkl, th, k)
                w.prove_close(Jl[:, k], _vee(Tli @ dT), TOL, 'link Jacobian %d column %d = vee(T_link^-1 dT_link/dtheta)' % (i, k))
            else:
                w.prove_close(Jl[:, k], [0] * 6, 0, 'link Jacobian %d column %d = 0 (later joint)' % (i, k))


def h_concrete_only(w):
    """clauses with no exact encoding: numerical Jacobian accuracy and the statics round trip at full rank"""
    arm, ctx, B, M = _prepare(w)
    Wrench = w.lib('general').Wrench
    n = ctx['n']
    th = A.sym_thetas(w, n, 't', -w.pi, w.pi)
    f = w.reals('F', 6, -100, 100)
    import numpy as np
    Js = arm.jacobian(w.array(th))
    Jn = arm.numericalJacobian(w.array(th))
    w.prove_close(Jn, Js, 1e-5 * max(1.0, float(np.linalg.norm(Js))), 'numericalJacobian = analytic space Jacobian (to truncation error)')
    if n == 6 and np.linalg.svd(Js, compute_uv=False)[-1] > 0.05:
        Fw = Wrench(w.array(f).reshape((6, 1)))
        tau = arm.staticForces(Fw, w.array(th))
        back = arm.staticForcesInv(tau, w.array(th))
        w.prove_close(back.getData().reshape(-1), f, 1e-6 * (1 + float(np.linalg.norm(f))), 'staticForcesInv(staticForces(F)) = F at full rank')


def cases(tier, seed):
    cs = []
    combos = [('2R', 'I', 'fresh'), ('2R', 'B1', 'fresh'), ('2R', 'I', 'moved'), ('2R', 'B1', 'tool'), ('2R', 'I', 'moved_tool'),
              ('2R', 'B1', 'tool_restored'), ('3R', 'B1', 'fresh'), ('3R', 'I', 'tool'), ('test6R', 'I', 'fresh'), ('test6R', 'B1', 'moved'),
              ('1R', 'B1', 'moved_tool')]      # one-joint arm: the size boundary (F29 was found here)
    if tier == 'thorough':
        combos += [('1R', 'I', 'fresh'), ('3R', 'B1', 'moved_tool'), ('test6R', 'I', 'tool'), ('3R', 'I', 'tool_restored')]
    for arm, base, st in combos:
        p = dict(arm=arm, base=base, state=st)
        tag = '%s_%s_%s' % (arm, base, st)
        cs.append(Case('jacobians_' + tag, h_jacobians, params=p))
        cs.append(Case('statics_' + tag, h_statics, params=p))
        if arm != 'test6R' or st == 'fresh':
            cs.append(Case('link_masses_' + tag, h_link_masses, params=p))
            cs.append(Case('link_jacobian_' + tag, h_link_jacobian, params=p))
        cs.append(Case('numeric_' + tag, h_concrete_only, params=p, concrete_only=True, concrete_samples=3))
    return cs
