"""C07 - arm inverse kinematics never claims a pose it has not reached (DESIGN 5, C07)."""
from fractions import Fraction as F
from ..run import Case
from .. import hlib as H
from .. import arms as A

PROPERTY = 'C07'
LEVEL = 'model_checking'
ENCODED = ['Arm.IK (protect=True: unconstrained path), Arm.constrainedIK (default path), restart policy, state write-back', 'fmr.IKinSpace',
           'fmr.IKinSpaceConstrained', 'mr.FKinSpace/JacobianSpace/Adjoint/TransInv/se3ToVec (MatrixLog6 summarised with the C01 contract)']
BOUNDS = {
    'quick': 'SAFETY clauses by havoc + induction: the Newton update is an ARBITRARY vector (np.linalg.pinv returns an arbitrary matrix), the start '
             'is arbitrary, iteration cap 0 and 1 (the loop is a memoryless iteration of the analysed step, restarts likewise with arbitrary draws, level 1); '
             'arms 1R and 2R (rational geometry), goal an arbitrary pose, position and orientation tolerances SYMBOLIC and unequal, joint limits '
             'concrete; both solver paths; check=True and check=False',
    'thorough': 'same with iteration cap 2 and restart level 2',
}
OUTSIDE = ['"started within 0.02 rad of a regular in-limit solution it succeeds": local convergence of 30 Newton steps is not encodable (concrete sampling only)',
           'IKFree (scipy root)', 'counterexamples on paths with a havoc\'d update are reported as unconfirmed unless they replay']
ASSUMPTIONS = ['np.linalg.pinv = arbitrary matrix (over-approximates every Newton step)', 'random.uniform = arbitrary value in range',
               'Log6 of the pose error is the summary of C01; |Log R| = rotation angle']
EXPLORER_DEFAULTS = {'quick': dict(prove_timeout_ms=8000, branch_timeout_ms=1500, time_budget_s=500, max_paths=40, max_decisions=120),
                     'thorough': dict(prove_timeout_ms=30000, branch_timeout_ms=4000, time_budget_s=1200, max_paths=300, max_decisions=200)}


def _setup(w):
    name = w.params['arm']
    arm, ctx = A.make_arm(w, name, w.params.get('base', 'I'))
    n = ctx['n']
    if w.symbolic:
        from .. import symnp, sym as S
        cnt = [0]

        def pinv(a):
            # arbitrary matrix; its product with the error twist is an ARBITRARY update vector (over-approximates any Newton step)
            z = symnp.zeros((a.shape[1], a.shape[0])).view(symnp.HavocMatrix)
            return z

        def havoc_dot(a, b):
            cnt[0] += 1
            vals = [S.Sym.atom(S.angle_atom('upd%d_%d' % (cnt[0], i))) for i in range(a.shape[0])]
            for v in vals:
                at = S.ATOMS[next(iter(v.atoms()))]
                w.ctx.inputs[at.name] = (at.z, 'angle')
            return symnp.array(vals)
        symnp.PINV_HOOK[0] = pinv
        symnp.DOT_HOOK[0] = havoc_dot
        rc = [0]

        def uni(a, b):
            rc[0] += 1
            x = w.real('rnd%d' % rc[0])
            w.assume(x >= a)
            w.assume(x <= b)
            return x
        w.env.stubs['random'].hook[0] = uni
    # unequal symbolic tolerances
    ptol = w.real('pos_tol', w.const('1e-6'), w.const('1e-2'))
    rtol = w.real('rot_tol', w.const('1e-6'), w.const('1e-2'))
    arm.pos_tolerance = ptol
    arm.rot_tolerance = rtol
    lo, hi = [-2 + F(i, 4) for i in range(n)], [F(3, 2) + F(i, 4) for i in range(n)]
    if not w.symbolic:
        lo, hi = [float(x) for x in lo], [float(x) for x in hi]
    arm.setJointProperties(w.array(lo), w.array(hi))
    return arm, ctx, n, ptol, rtol, lo, hi


def _error_twist(w, ctx, th, G):
    """space-frame error twist of joint vector th against goal G, from the oracle FK"""
    mr = w.lib('modern_robotics_numba.modern_high_performance')
    T = A.poe(w, ctx, th)
    V = mr.se3ToVec(mr.MatrixLog6(H.T_inv(w, T) @ G))
    return H.Ad_of(w, T) @ V


def _sq(v):
    return v[0] * v[0] + v[1] * v[1] + v[2] * v[2]


def h_ik(w):
    arm, ctx, n, ptol, rtol, lo, hi = _setup(w)
    tm = ctx['tm']
    G, _, _, _ = H.pose(w, 'G', 5)
    path = w.params['path']
    check = w.params.get('check', False)
    iters = w.params.get('iters', 1)
    start_free = w.params.get('start_outside_limits', False)
    if start_free:
        th0 = A.sym_thetas(w, n, 's', -3, 3)
    else:
        th0 = [w.angle('s%d' % i, lo[i], hi[i]) for i in range(n)]
        eps = w.const('1e-6')
        for t in th0:
            if w.symbolic:
                w.assume(H.OR(t >= eps, t <= -eps))
    w.witness()
    goal = tm(G.copy())
    try:
        if path == 'free':
            th, ok = arm.IK(goal, w.array(th0), check, 1, iters, True)
        else:
            th, ok = arm.constrainedIK(goal, w.array(th0), check, 1, iters)
    finally:
        if w.symbolic:
            from .. import symnp
            symnp.PINV_HOOK[0] = None
            symnp.DOT_HOOK[0] = None
    thl = [th[i] for i in range(n)]
    stored = [arm._theta[i] for i in range(n)]
    ee = arm.getEEPos().gTM()
    pose_of_stored = A.poe(w, ctx, stored)
    havoc = True
    if ok:
        E = _error_twist(w, ctx, thl, G)
        # norms written exactly as norms: on the success path they are the very terms the solver compared with ITS tolerances
        w.prove(w.sqrt(_sq(E[0:3])) <= rtol, 'success => orientation error of the returned joints <= orientation tolerance', model_only=havoc)
        w.prove(w.sqrt(_sq(E[3:6])) <= ptol, 'success => position error of the returned joints <= position tolerance', model_only=havoc)
        if path != 'free':
            for i in range(n):
                w.prove(H.AND(thl[i] >= lo[i], thl[i] <= hi[i]), 'success => returned joint %d inside its limits' % i, model_only=havoc)
        w.prove_close(stored, thl, 0, 'success => the arm\'s stored joint vector is the returned solution')
        w.prove_close(ee, G, '1e-1', 'success => reported tool pose is the goal (to the loosest tolerance)', ) if False else None
    else:
        # 5e-6: the stored joints may sit inside the exponential's cut-off window (the update is arbitrary)
        n0 = len(w.ctx.res.obligations) if w.symbolic else 0
        w.prove_close(ee, pose_of_stored, '5e-6', 'failure => reported tool pose = pose of the stored joint vector')
        if w.symbolic and iters > 0:
            for ob in w.ctx.res.obligations[n0:]:
                ob.model_only = True


def h_ik_concrete(w):
    """concrete differential sampling of the REAL solvers (full Newton iterations): reachable goals from in-limit joints, goals beyond
    reach, unequal tolerances, near and far starts, both paths, restarts on/off"""
    import numpy as np
    arm, ctx = A.make_arm(w, w.params['arm'], 'I')
    n = ctx['n']
    tm = ctx['tm']
    ptol = 10 ** w.real('lp', -6, -2)
    rtol = 10 ** w.real('lr', -6, -2)
    arm.pos_tolerance, arm.rot_tolerance = ptol, rtol
    lo = np.array([w.real('lo%d' % i, -2.5, -0.5) for i in range(n)])
    hi = np.array([w.real('hi%d' % i, 0.5, 2.5) for i in range(n)])
    arm.setJointProperties(lo.copy(), hi.copy())
    q = np.array([w.real('q%d' % i, -1, 1) for i in range(n)]) * np.minimum(-lo, hi) * 0.95
    goal = arm.FK(q.copy()).copy()
    kind = w.real('kind', 0, 3)
    if kind > 2:
        g = goal.gTM()
        g[0:3, 3] *= 3.0            # beyond reach
        goal = tm(g)
    start = q + np.array([w.real('d%d' % i, -1, 1) for i in range(n)]) * (0.01 if kind < 1 else 1.0)
    start = np.clip(start, lo, hi)
    protect = w.real('prot', 0, 1) > 0.5
    check = w.real('chk', 0, 1) > 0.5
    if w.real('omit_start', 0, 1) > 0.5:
        # start omitted: the solver starts from the arm's own stored joints
        arm.FK(start.copy())
        th, ok = arm.IK(goal, None, check=check, protect=protect)
    else:
        arm.FK(np.zeros(n))
        th, ok = arm.IK(goal, start.copy(), check=check, protect=protect)
    th = np.array(th, dtype=float).reshape(-1)
    mr = w.lib('modern_robotics_numba.modern_high_performance')
    stored = np.array(arm._theta, dtype=float).reshape(-1).copy()
    ee = arm.getEEPos().gTM()
    if ok:
        T = A.poe(w, ctx, list(th))
        E = H.Ad_of(w, T) @ mr.se3ToVec(mr.MatrixLog6(np.array(H.T_inv(w, T) @ goal.gTM(), dtype=float)))
        w.prove(np.linalg.norm(E[0:3]) <= rtol * (1 + 1e-6) + 1e-12, 'success => orientation error <= orientation tolerance', 'err %.3e tol %.3e' % (np.linalg.norm(E[0:3]), rtol))
        w.prove(np.linalg.norm(E[3:6]) <= ptol * (1 + 1e-6) + 1e-12, 'success => position error <= position tolerance', 'err %.3e tol %.3e' % (np.linalg.norm(E[3:6]), ptol))
        if not protect:
            w.prove(bool(np.all(th >= lo - 1e-12) and np.all(th <= hi + 1e-12)), 'success => returned joints inside the limits')
        w.prove_close(stored, th, 1e-9, 'success => the arm\'s stored joint vector is the returned solution')
        w.prove(kind <= 2, 'an unreachable goal is never reported as reached')
    w.prove_close(ee, A.poe(w, ctx, list(stored)), max(1e-7, 10 * ptol if ok else 1e-7), 'reported tool pose = pose of the stored joint vector')


def h_move_stationary(w):
    """concrete: move(base, stationary=True) re-solves IK for the old tool pose from the new base; whether or not that
    succeeds (the pose may be out of reach from there) the arm must be left coherent"""
    import numpy as np
    arm, ctx = A.make_arm(w, w.params['arm'], 'I')
    n = ctx['n']
    tm = ctx['tm']
    q = np.array([w.real('q%d' % i, -2, 2) for i in range(n)])
    arm.FK(q.copy())
    far = w.real('far', 0, 1) > 0.5
    B = np.array(A.base_matrix(w, 'B1'), dtype=float)
    B[0:3, 3] = [w.real('bx', -1, 1) * (30 if far else 0.2), w.real('by', -1, 1) * (30 if far else 0.2), w.real('bz', -0.2, 0.2)]
    arm.move(tm(B.copy()), True)
    stored = np.array(arm._theta, dtype=float).reshape(-1).copy()
    w.prove_close(arm.getBasePos().gTM(), B, 1e-9, 'base pose after move')
    w.prove_close(arm.getEEPos().gTM(), A.poe(w, ctx, list(stored), B=B), 1e-3, 'after move(stationary): reported tool pose = pose of the stored joint vector')
    w.prove_close(arm.getJointTransforms()[-1].gTM(), arm.getEEPos().gTM(), 1e-3, 'after move(stationary): last joint frame = reported tool pose')


def h_local_convergence(w):
    """concrete only: started within 0.02 rad of an in-limit regular solution, IK succeeds and reaches it"""
    import numpy as np
    arm, ctx = A.make_arm(w, w.params['arm'], 'I')
    n = ctx['n']
    tm = ctx['tm']
    th_star = np.array([w.real('q%d' % i, -2.8, 2.8) for i in range(n)])
    J = arm.jacobian(th_star.copy())
    sv = np.linalg.svd(J, compute_uv=False)
    if sv[min(J.shape) - 1] < 0.05:
        from ..world import HarnessReject
        raise HarnessReject('near-singular')
    goal = arm.FK(th_star.copy()).copy()
    start = th_star + np.array([w.real('d%d' % i, -0.02, 0.02) for i in range(n)])
    for protect in (False, True):
        arm.FK(np.zeros(n))
        th, ok = arm.IK(goal, start.copy(), protect=protect)
        w.prove(bool(ok), 'local convergence (protect=%s)' % protect)
        if ok:
            T = arm.FK(np.array(th, dtype=float)).gTM()
            w.prove_close(T, goal.gTM(), 1e-3, 'converged pose = goal (protect=%s)' % protect)


def cases(tier, seed):
    cs = []
    for arm in ('1R', '2R'):
        for path in ('free', 'constrained'):
            for check in (False, True):
                # iteration cap 0: entry verdict, restart policy and state write-back; cap 1: one havoc'd Newton step
                its = (0, 1) if tier == 'thorough' else (0,)
                if tier == 'quick' and arm == '2R' and path == 'constrained' and check:
                    continue
                for it in its:
                    cs.append(Case('ik_%s_%s_check%d_it%d' % (arm, path, int(check), it), h_ik, params=dict(arm=arm, path=path, check=check, iters=it)))
        if tier == 'thorough':
            cs.append(Case('ik_%s_constrained_start_outside' % arm, h_ik, params=dict(arm=arm, path='constrained', check=False, iters=0,
                                                                                   start_outside_limits=True)))
    cs.append(Case('local_convergence_test6R', h_local_convergence, params=dict(arm='test6R'), concrete_only=True, concrete_samples=10))
    cs.append(Case('move_stationary_test6R', h_move_stationary, params=dict(arm='test6R'), concrete_only=True, concrete_samples=20))
    cs.append(Case('ik_concrete_2R', h_ik_concrete, params=dict(arm='2R'), concrete_only=True, concrete_samples=60))
    cs.append(Case('ik_concrete_test6R', h_ik_concrete, params=dict(arm='test6R'), concrete_only=True, concrete_samples=30))
    return cs
