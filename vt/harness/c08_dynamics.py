"""C08 - rigid-body dynamics are physically consistent (DESIGN 5, C08)."""
from fractions import Fraction as F
from ..run import Case
from .. import hlib as H
from .. import arms as A

PROPERTY = 'C08'
LEVEL = 'model_checking'
ENCODED = ['mr.InverseDynamics, MassMatrix, VelQuadraticForces, GravityForces, EndEffectorForces, ForwardDynamics (port, interpreted source)',
           'Arm.inverseDynamics, inverseDynamicsEMR, forwardDynamics, forwardDynamicsE, massMatrix, coriolisGravity, jacobianLink, FKLink (arms built at I and at B1)']
BOUNDS = {
    'quick': 'open chains of n = 1, 2 revolute joints (n = 3 for symmetry / decomposition / gravity) with rational geometry (generic unit axes, '
             'link frames off the axes), diagonal SPD spatial inertias with symbolic masses in [0.1, 50] and symbolic principal inertias; '
             'q, qd, qdd, tau, g, F_tip symbolic; derivatives (Mdot, gradient of the potential, link Jacobians) are FORMAL derivatives',
    'thorough': 'n = 3 for every clause',
}
OUTSIDE = ['n > 3; non-diagonal inertias', 'positive definiteness for n = 3 is the pen-and-paper corollary of M = sum J_i^T G_i J_i with G_i > 0 '
           '(DESIGN 5/C08), not a solver result; for n <= 2 the leading minors are proved', 'energy conservation is the corollary of '
           'qd.c = 1/2 qd^T Mdot qd and g = grad V, not simulated', 'Arm.inverseDynamicsC (hard-coded 6 joints, 36x36 inverse): concrete sampling only']
ASSUMPTIONS = ['np.linalg.inv: exact adjugate for n <= 3 under non-singularity', 'formal differentiation on the normal form']
EXPLORER_DEFAULTS = {'quick': dict(prove_timeout_ms=30000, time_budget_s=900, max_paths=40, max_decisions=100),
                     'thorough': dict(prove_timeout_ms=120000, time_budget_s=1200, max_paths=100, max_decisions=150)}
TOL = '1e-8'

CHAINS = {
    1: dict(axes=[(0, F(3, 5), F(4, 5))], points=[(F(1, 2), 0, F(1, 4))], frames=[(F(3, 4), F(1, 5), F(1, 2)), (1, F(1, 3), F(1, 2))]),
    2: dict(axes=[(0, 0, 1), (F(3, 5), 0, F(4, 5))], points=[(0, 0, 0), (1, F(1, 2), F(1, 5))],
            frames=[(F(1, 2), F(1, 4), F(1, 10)), (F(5, 4), F(1, 2), F(3, 5)), (F(3, 2), F(1, 2), 1)]),
    3: dict(axes=[(0, 0, 1), (0, 1, 0), (F(2, 3), F(1, 3), F(2, 3))], points=[(0, 0, 0), (0, 0, 1), (F(4, 5), F(1, 10), 1)],
            frames=[(0, F(1, 10), F(1, 2)), (F(2, 5), 0, 1), (1, F(1, 5), F(11, 10)), (F(3, 2), F(1, 5), F(6, 5))]),
}


def chain(w, n):
    """Mlist (n+1 relative frames, identity orientation), Glist (diag, symbolic), Slist, absolute frames, masses"""
    c = CHAINS[n]
    cv = (lambda v: v) if w.symbolic else float
    fr = [[cv(x) for x in p] for p in c['frames']]
    Ms = []
    prev = [0, 0, 0]
    for p in fr:
        Ms.append(H.T_of(w, H.eye(w, 3), [p[i] - prev[i] for i in range(3)]))
        prev = p
    masses = w.reals('m', n, w.const('0.1'), 50)
    iner = [w.reals('I%d_' % i, 3, w.const('0.01'), 5) for i in range(n)]
    G = [[[([iner[k][0], iner[k][1], iner[k][2], masses[k], masses[k], masses[k]][i] if i == j else 0) for j in range(6)] for i in range(6)] for k in range(n)]
    cols = []
    for ax, q in zip(c['axes'], c['points']):
        v = H.cross(q, ax)
        cols.append([cv(x) for x in list(ax) + list(v)])
    return w.array(Ms), w.array(G), w.array(cols).T, fr, masses, c


def link_pose(w, c, fr, th, i):
    """absolute pose of link frame i (0-based; i = n is the tip frame) at configuration th: PoE(<= i) * M_0i"""
    T = H.eye(w, 4)
    for k in range(min(i + 1, len(th))):
        T = T @ A.joint_exp(w, c['axes'][k], c['points'][k], th[k])
    return T @ H.T_of(w, H.eye(w, 3), fr[i])


def _vee(X):
    return [X[2][1], X[0][2], X[1][0], X[0][3], X[1][3], X[2][3]]


def body_jacobian(w, c, fr, th, i):
    """6 x n body Jacobian of link frame i by FORMAL differentiation of its pose (oracle, independent of Newton-Euler)"""
    n = len(th)
    T = link_pose(w, c, fr, th, i)
    Ti = H.T_inv(w, T)
    cols = []
    for k in range(n):
        if k > i:
            cols.append([0] * 6)
        else:
            dT = w.diff(T, th[k])
            cols.append(_vee(Ti @ dT))
    return w.array(cols).T


def _inputs(w, n):
    th = A.sym_thetas(w, n, 'q', -w.pi, w.pi)
    return th, w.reals('qd', n, -10, 10), w.reals('qdd', n, -10, 10), w.reals('tau', n, -100, 100), w.reals('g', 3, -10, 10), w.reals('F', 6, -100, 100)


def h_mass_matrix(w):
    mr = w.lib('modern_robotics_numba.modern_high_performance')
    n = w.params['n']
    Mlist, Glist, Slist, fr, masses, c = chain(w, n)
    th, qd, qdd, tau, g, Ft = _inputs(w, n)
    w.witness()
    M = mr.MassMatrix(w.array(th), Mlist, Glist, Slist)
    w.prove_shape(M, (n, n), 'mass matrix is n x n')
    w.prove_close(M, M.T, TOL, 'mass matrix symmetric')
    if w.symbolic:
        Mo = w.np.zeros((n, n))
        for i in range(n):
            Ji = body_jacobian(w, c, fr, th, i)
            Mo = Mo + Ji.T @ Glist[i] @ Ji
        w.prove_close(M, Mo, TOL, 'mass matrix = sum_i J_i^T G_i J_i (link Jacobians by formal differentiation of the link poses)')
        if n <= 2:
            w.prove(M[0, 0] > 0, 'positive definite: first leading minor > 0')
            if n == 2:
                w.prove(M[0, 0] * M[1, 1] - M[0, 1] * M[1, 0] > 0, 'positive definite: determinant > 0')
    else:
        import numpy as np
        ev = np.linalg.eigvalsh(np.array(M, dtype=float))
        w.prove(ev.min() > 0, 'mass matrix positive definite (eigenvalues)')


def h_decomposition(w):
    mr = w.lib('modern_robotics_numba.modern_high_performance')
    n = w.params['n']
    Mlist, Glist, Slist, fr, masses, c = chain(w, n)
    th, qd, qdd, tau, g, Ft = _inputs(w, n)
    Ar = w.array
    w.witness()
    geo = (Mlist, Glist, Slist)
    ID = mr.InverseDynamics(Ar(th), Ar(qd), Ar(qdd), Ar(g), Ar(Ft), *geo)
    M = mr.MassMatrix(Ar(th), *geo)
    cc = mr.VelQuadraticForces(Ar(th), Ar(qd), *geo)
    gg = mr.GravityForces(Ar(th), Ar(g), *geo)
    ee = mr.EndEffectorForces(Ar(th), Ar(Ft), *geo)
    w.prove_close(ID, M @ Ar(qdd) + cc + gg + ee, w.params.get('tol', '1e-7'), 'tau = M qdd + c(q, qd) + g(q) + J^T F_tip')
    if w.symbolic:
        # gravity = gradient of the potential energy V = - sum m_i g . p_i
        V = 0
        for i in range(n):
            Ti = link_pose(w, c, fr, th, i)
            V = V - masses[i] * (g[0] * Ti[0][3] + g[1] * Ti[1][3] + g[2] * Ti[2][3])
        w.prove_close(gg, [w.diff(V, th[k]) for k in range(n)], TOL, 'gravity term = gradient of the links\' potential energy')
        # tip force term = transpose of the body Jacobian of the tip frame
        Jt = body_jacobian(w, c, fr, th, n)
        w.prove_close(ee, Jt.T @ Ar(Ft), TOL, 'tip-force term = J_tip^T F_tip')
        # velocity-product term only exchanges kinetic energy: qd . c = 1/2 qd^T Mdot qd
        Md = w.np.zeros((n, n))
        for k in range(n):
            Md = Md + w.diff(M, th[k]) * qd[k]
        w.prove_close(H.dot(qd, list(cc)), H.dot(qd, list(Md @ Ar(qd))) / 2, w.params.get('tol', '1e-7'), 'qd . c = 1/2 qd^T Mdot qd')
        # c is quadratic in the rates: c(q, 0) = 0
        w.prove_close(mr.VelQuadraticForces(Ar(th), w.np.zeros(n), *geo), [0] * n, 0, 'c(q, 0) = 0')


def h_forward(w):
    mr = w.lib('modern_robotics_numba.modern_high_performance')
    n = w.params['n']
    Mlist, Glist, Slist, fr, masses, c = chain(w, n)
    th, qd, qdd, tau, g, Ft = _inputs(w, n)
    Ar = w.array
    w.witness()
    geo = (Mlist, Glist, Slist)
    FD = mr.ForwardDynamics(Ar(th), Ar(qd), Ar(tau), Ar(g), Ar(Ft), *geo)
    M = mr.MassMatrix(Ar(th), *geo)
    rhs = Ar(tau) - mr.VelQuadraticForces(Ar(th), Ar(qd), *geo) - mr.GravityForces(Ar(th), Ar(g), *geo) - mr.EndEffectorForces(Ar(th), Ar(Ft), *geo)
    w.prove_close(M @ FD, rhs, w.params.get('tol', '1e-6'), 'M * ForwardDynamics = tau - c - g - J^T F')
    if not w.symbolic or n == 1:
        back = mr.InverseDynamics(Ar(th), Ar(qd), FD, Ar(g), Ar(Ft), *geo)
        w.prove_close(back, tau, w.params.get('tol', '1e-6'), 'InverseDynamics(ForwardDynamics(tau)) = tau')


def h_id_trajectory(w):
    """the trajectory form of inverse dynamics agrees with the single-sample form on every row"""
    mr = w.lib('modern_robotics_numba.modern_high_performance')
    n, N = w.params['n'], w.params['N']
    Mlist, Glist, Slist, fr, masses, c = chain(w, n)
    Ar = w.array
    g = w.reals('g', 3, -10, 10)
    rows = []
    for k in range(N):
        th = A.sym_thetas(w, n, 'q%d_' % k, -w.pi, w.pi)
        rows.append((th, w.reals('qd%d_' % k, n, -10, 10), w.reals('qdd%d_' % k, n, -10, 10), w.reals('F%d_' % k, 6, -100, 100)))
    w.witness()
    taumat = mr.InverseDynamicsTrajectory(Ar([r[0] for r in rows]), Ar([r[1] for r in rows]), Ar([r[2] for r in rows]), Ar(g),
                                          Ar([r[3] for r in rows]), Mlist, Glist, Slist)
    w.prove_shape(taumat, (N, n), 'InverseDynamicsTrajectory returns N x n')
    for k, r in enumerate(rows):
        one = mr.InverseDynamics(Ar(r[0]), Ar(r[1]), Ar(r[2]), Ar(g), Ar(r[3]), Mlist, Glist, Slist)
        w.prove_close(taumat[k, :], one, TOL, 'InverseDynamicsTrajectory row %d = InverseDynamics of that sample' % k)


def _dyn_arm(w, n, base='I'):
    """an Arm with explicit dynamics properties set through the public setters, on the same chain"""
    Mlist, Glist, Slist, fr, masses, c = chain(w, n)
    km = w.lib('kinematics.arm_model')
    tm = w.lib('general').tm
    cv = (lambda v: v) if w.symbolic else float
    Bm = A.base_matrix(w, base)
    homes = w.array([[cv(q[i]) for q in c['points']] for i in range(3)])
    axes = w.array([[cv(a[i]) for a in c['axes']] for i in range(3)])
    ee = H.T_of(w, H.eye(w, 3), fr[n])
    arm = km.Arm(tm(Bm.copy()), Slist.copy(), tm(ee), homes, axes)
    link_homes = [tm(Bm @ H.T_of(w, H.eye(w, 3), fr[i])) for i in range(n)]
    arm.setOrigins(link_homes_global=link_homes)
    # link frames relative to the previous one; the FIRST one relative to the world (= base * M01), which is the
    # convention under which the arm-level recursions are consistent for an arm that does not stand at the origin
    rel = [Bm @ Mlist[0]] + [Mlist[i].copy() for i in range(1, n + 1)]
    arm.setMassProperties(w.array(masses) if not w.symbolic else masses, [tm(r) for r in rel], Glist.copy())
    return arm, (Mlist, Glist, Slist), fr, masses, c


def h_arm(w):
    """the Arm-level implementations agree with the Modern-Robotics-level ones (arm at the identity base)"""
    mr = w.lib('modern_robotics_numba.modern_high_performance')
    n = w.params['n']
    base = w.params.get('base', 'I')
    arm, geo, fr, masses, c = _dyn_arm(w, n, base)
    if base != 'I':
        # the same chain expressed in the space frame: screws Ad(B) S, first link frame B * M01
        Bm = A.base_matrix(w, base)
        Mlist, Glist, Slist = geo
        Mb = Mlist.copy()
        Mb[0] = Bm @ Mlist[0]
        geo = (Mb, Glist, H.Ad_of(w, Bm) @ Slist)
    th, qd, qdd, tau, g, Ft = _inputs(w, n)
    Ar = w.array
    w.witness()
    M_mr = mr.MassMatrix(Ar(th), *geo)
    w.prove_close(arm.massMatrix(Ar(th)), M_mr, w.params.get('tol', '1e-7'), 'Arm.massMatrix = MassMatrix')
    ID_mr = mr.InverseDynamics(Ar(th), Ar(qd), Ar(qdd), Ar(g), Ar(Ft), *geo)
    Fcol = Ar(Ft).reshape((6, 1))
    w.prove_close(arm.inverseDynamics(Ar(th), Ar(qd), Ar(qdd), Ar(g), Fcol)[0].reshape(-1), ID_mr, w.params.get('tol', '1e-7'),
                  'Arm.inverseDynamics = InverseDynamics')
    w.prove_close(arm.inverseDynamicsEMR(Ar(th), Ar(qd), Ar(qdd), Ar(g), Ar(Ft)), ID_mr, w.params.get('tol', '1e-7'),
                  'Arm.inverseDynamicsEMR = InverseDynamics')
    cg = arm.coriolisGravity(Ar(th), Ar(qd), Ar(g))
    w.prove_close(cg.reshape(-1), mr.VelQuadraticForces(Ar(th), Ar(qd), *geo) + mr.GravityForces(Ar(th), Ar(g), *geo), w.params.get('tol', '1e-7'),
                  'Arm.coriolisGravity = c + g')
    if n <= 2:
        FD_mr = mr.ForwardDynamics(Ar(th), Ar(qd), Ar(tau), Ar(g), Ar(Ft), *geo)
        w.prove_close(arm.forwardDynamics(Ar(th), Ar(qd), Ar(tau), Ar(g), Ar(Ft)), FD_mr, w.params.get('tol', '1e-6'), 'Arm.forwardDynamics = ForwardDynamics')
        if not w.symbolic:
            fde = arm.forwardDynamicsE(Ar(th), Ar(qd), Ar(tau), Ar(g), Fcol)[0]
            w.prove_close(fde.reshape(-1), FD_mr, 1e-6, 'Arm.forwardDynamicsE = ForwardDynamics')


def cases(tier, seed):
    cs = []
    for n in (1, 2, 3):
        cs.append(Case('mass_matrix_n%d' % n, h_mass_matrix, params=dict(n=n)))
    for n in ((1, 2) if tier == 'quick' else (1, 2, 3)):
        cs.append(Case('decomposition_n%d' % n, h_decomposition, params=dict(n=n)))
    for n in ((1, 2) if tier == 'quick' else (1, 2, 3)):
        cs.append(Case('forward_n%d' % n, h_forward, params=dict(n=n)))
    cs.append(Case('id_trajectory_n1_N3', h_id_trajectory, params=dict(n=1, N=3)))
    cs.append(Case('id_trajectory_n2_N2', h_id_trajectory, params=dict(n=2, N=2)))
    for n in (1, 2):
        cs.append(Case('arm_n%d' % n, h_arm, params=dict(n=n)))
        cs.append(Case('arm_n%d_B1' % n, h_arm, params=dict(n=n, base='B1')))
    return cs
