"""C09 - Stewart platform: IK is exact geometry and FK inverts it (DESIGN 5, C09)."""
from fractions import Fraction as F
from ..run import Case
from .. import hlib as H
from .. import arms as A
from .. import sp as P

PROPERTY = 'C09'
LEVEL = 'model_checking'
ENCODED = ['kinematics.sp_model.SP: __init__, IK, _IKHelper, _bottomTopCheck, _setPlatePos, move, spinCustom, FK, _FKRaphson, _FKSolve (entry), getters',
           'fmr.SPIKinSpace, TrVec, SPFKinSpaceR (first evaluation of the residual)', 'newSP / makeSP joint layout (concrete sampling)']
BOUNDS = {
    'quick': 'one platform geometry with rational plate-fixed joint coordinates, bases I and B1 (and after move to a symbolic base); BOTH plate poses '
             'symbolic (axis-angle, |p| <= 2, angle < pi - 1e-3): leg lengths = joint-to-joint distances, joint positions = pose applied to the '
             'plate-fixed coordinates, invariance under a common symbolic rigid motion; FIXED-POINT consistency of FK: started at the true pose (where '
             'IK leaves the platform) FK(lengths) must return that pose with the requested lengths - the real kernel\'s residual at the true pose must be '
             'exactly 0 - for fresh, moved and re-spun (symbolic angle) platforms; iteration cap 3 (the first evaluation must already converge)',
    'thorough': 'same',
}
OUTSIDE = ['convergence of Newton-Raphson / fsolve FROM THE NEUTRAL POSE to 1e-3 over the workspace (not encodable; concrete sampling on the JSON/parametric '
           'constructors over the property\'s geometry ranges)', 'fsolve is modelled only at a zero residual (returns its start)']
ASSUMPTIONS = ['np.linalg.solve on the 6x6 Newton system: arbitrary vector', 'scipy fsolve(f, x0) returns x0 when f(x0) = 0 exactly, anything otherwise',
               'summary mode for Exp/Log of composed rotations (C01 contracts)']
EXPLORER_DEFAULTS = {'quick': dict(prove_timeout_ms=20000, branch_timeout_ms=3000, time_budget_s=600, max_paths=40, max_decisions=200),
                     'thorough': dict(prove_timeout_ms=60000, branch_timeout_ms=5000, time_budget_s=1200, max_paths=200, max_decisions=300)}
TOL = '1e-8'


def _install_solver_stubs(w):
    if not w.symbolic:
        return
    from .. import symnp, sym as S
    opt = w.env.stubs['scipy.optimize']

    def fsolve(f, x0, *a, **k):
        x0 = symnp.asarray(x0)
        r = symnp.asarray(f(x0.reshape(-1)))
        if all(S.Sym.lift(v).is_zero() for v in r.reshape(-1)):
            return x0.reshape(-1).copy()
        raise S.SymbolicLeak('fsolve away from a root is not modelled')
    opt.fsolve = fsolve
    w.env.stubs['scipy'].optimize = opt

    def solve(a, b):
        n = a.shape[0]
        c = w.ctx.memo.get('solve_n', 0)
        w.ctx.memo['solve_n'] = c + 1
        return symnp.array([S.Sym.atom(S.new_atom('solve%d_%d' % (c, i), 'var')) for i in range(n)])
    w.env.np.linalg.solve = solve


def h_ik_geometry(w):
    sp, g = P.make_sp(w, w.params.get('base', 'I'))
    tm = g['tm']
    bt, Tb = P.sym_pose(w, 'B')
    tt, Tt = P.sym_pose(w, 'T')
    w.witness()
    lens, valid = sp.IK(tm(tt), tm(bt), protect=True)
    bpts, tpts = P.joint_points(w, Tb, g['bj']), P.joint_points(w, Tt, g['tj'])
    w.prove_shape(lens, (6, 1), 'IK returns six lengths')
    for i in range(6):
        w.prove_close(lens[i, 0] * lens[i, 0], P.sq(tpts[i], bpts[i]), TOL, 'leg %d: length^2 = squared distance of the plate-fixed joint points' % i)
        w.prove(lens[i, 0] >= 0, 'leg %d: length non-negative' % i)
    w.prove_close(sp.getBottomJoints(), w.array(bpts).T, TOL, 'bottom joints = bottom pose applied to the plate-fixed coordinates')
    w.prove_close(sp.getTopJoints(), w.array(tpts).T, TOL, 'top joints = top pose applied to the plate-fixed coordinates')
    w.prove_close(sp.getLens(), lens, 0, 'getLens = returned lengths')
    w.prove_close(sp.getTopT().gTM(), Tt, TOL, 'top pose published')
    w.prove_close(sp.getBottomT().gTM(), Tb, TOL, 'bottom pose published')
    w.prove_close(sp.getCurrentLocalTransform().gTM(), H.T_inv(w, Tb) @ Tt, TOL, 'relative plate transform = inv(bottom) * top')
    # invariance under a common rigid motion
    gt, G = P.sym_pose(w, 'G')
    lens2, _ = sp.IK(tm(G @ Tt), tm(G @ Tb), protect=True)
    w.prove_close([lens2[i, 0] * lens2[i, 0] for i in range(6)], [lens[i, 0] * lens[i, 0] for i in range(6)], TOL,
                  'leg lengths unchanged when both plates are moved by one rigid motion')


def h_fk_fixed_point(w):
    _install_solver_stubs(w)
    sp, g = P.make_sp(w, w.params.get('base', 'I'))
    tm = g['tm']
    state = w.params.get('state', 'fresh')
    sp._max_iterations = 3
    Bm = g['B']
    if state == 'moved' and w.params.get('move_to'):
        if w.params['move_to'] == 'TR':
            Bm = H.T_of(w, H.eye(w, 3), [P._c(w, F(3, 10)), P._c(w, F(-1, 5)), P._c(w, F(1, 2))])
        else:
            Bm = A.base_matrix(w, w.params['move_to'])
        sp.move(tm(Bm.copy()), protect=True)
    elif state == 'moved':
        bt, Bm = P.sym_pose(w, 'M')
        sp.move(tm(bt), protect=True)
    elif state == 'spun':
        a = w.angle('spin', w.const('1e-2'), 1)
        sp.spinCustom(a)
    rel, Trel = P.sym_pose(w, 'R', plim=F(3, 10), thmax=w.const('0.3'))
    # relative pose around the neutral height
    Tgoal = Bm @ H.T_of(w, H.eye(w, 3), [0, 0, P._c(w, P.HEIGHT)]) @ Trel
    w.witness()
    lens, _ = sp.IK(tm(Tgoal), protect=True)
    req = lens.copy()
    mode = w.params.get('fk_mode', 1)
    if mode == 0 and w.symbolic:
        # the fsolve route re-validates six times; the constraint predicates of a symbolic pose fork 40+ paths that all
        # end in the same obligations.  Validation interplay is C10's subject: switched off here (symbolic runs only).
        sp.validation_settings = [False, False, False, False]
    if state == 'plate_arg':
        # FK with an explicit (different) fixed-plate pose: the platform is re-based there, relative pose and lengths kept
        nt, Tn = P.sym_pose(w, 'N') if w.params.get('new_base', 'sym') == 'sym' else (None, A.base_matrix(w, w.params['new_base']))
        top, _ = sp.FK(req.reshape(-1).copy(), plate_pos=tm(Tn.copy()), protect=True, fk_mode=mode)
        Texp = Tn @ H.T_inv(w, Bm) @ Tgoal
        w.prove_close(top.gTM(), Texp, '1e-6', 'FK(L, plate_pos=B\') returns B\' * inv(B) * P (fk_mode %d)' % mode)
        w.prove_close(sp.getBottomT().gTM(), Tn, '1e-6', 'FK(L, plate_pos=B\') publishes the requested base')
        w.prove_close(sp.getTopT().gTM(), Texp, '1e-6', 'FK(L, plate_pos=B\') publishes the re-based top pose')
        w.prove_close(sp.getLens().reshape(-1), req.reshape(-1), '1e-6', 'lengths reported after FK(L, plate_pos=B\') are the requested ones')
        bp, tp = P.joint_points(w, Tn, g['bj']), P.joint_points(w, Texp, g['tj'])
        w.prove_close(sp.getTopJoints(), w.array(tp).T, '1e-6', 'top joints after FK(L, plate_pos=B\')')
        w.prove_close(sp.getBottomJoints(), w.array(bp).T, '1e-6', 'bottom joints after FK(L, plate_pos=B\')')
        return
    top, _ = sp.FK(req.reshape(-1).copy(), protect=True, fk_mode=mode)
    w.prove_close(top.gTM(), Tgoal, '1e-6', 'FK(IK(P)) started at P returns P (%s platform, fk_mode %d)' % (state, mode))
    w.prove_close(sp.getLens().reshape(-1), req.reshape(-1), '1e-6', 'lengths reported after FK are the requested ones')
    w.prove_close(sp.getTopT().gTM(), Tgoal, '1e-6', 'published top pose after FK')


def h_kernel_stop(w):
    """one Newton iteration from an ARBITRARY guess with an arbitrary solution of the 6x6 system: if the kernel stops
    (returns the guess unchanged), either the squared-length residual or every component of the step is below tolerance"""
    if not w.symbolic:
        from ..world import HarnessReject
        raise HarnessReject('symbolic-only case (the linear solve is havocked)')
    from .. import symnp, sym as S
    fmr = w.lib('general.faser_high_performance')
    bj, tj = P.joints(w)
    bji = w.array([[bj[r][i] for r in range(3)] for i in range(6)])
    tji = w.array([[tj[r][i] for r in range(3)] for i in range(6)])
    L = w.reals('L', 6, P.LMIN, P.LMAX)
    th = w.angle('th', w.const('1e-3'), w.const('0.5'))
    u = w.unit3('u')
    p = w.reals('p', 3, -1, 2)
    w.assume(p[2] >= P.LMIN / 2)
    guess = w.array([p[0], p[1], p[2], th * u[0], th * u[1], th * u[2]])
    deltas = []

    def solve(a, b):
        ats = [S.new_atom('delta%d' % i, 'var') for i in range(6)]
        for a_ in ats:
            w.ctx.inputs[a_.name] = (a_.z, 'real')
            w.ctx.extra_atoms.add(a_.id)
        d = [S.Sym.atom(a_) for a_ in ats]
        deltas.append((symnp.asarray(a).copy(), symnp.asarray(b).copy(), d))
        return symnp.array(d)
    w.env.np.linalg.solve = solve
    tol_f, tol_a = w.const('5e-6'), w.const('5e-6')
    w.witness()
    out, it = fmr.SPFKinSpaceR(L, guess.copy(), bji, tji, 1, tol_f, tol_a, P.LMIN)
    R = H.rodrigues(w, u, th)
    res = 0
    for i in range(6):
        q = [p[k] - bji[i, k] + sum(R[k][j] * tji[i, j] for j in range(3)) for k in range(3)]
        res = res + w.abs(L[i] * L[i] - sum(x * x for x in q))
    if not deltas:
        w.prove(res < tol_f, 'kernel returned without solving only because the residual is below tolerance', model_only=True)
        return
    A_, b_, d = deltas[0]
    moved = any(not S.Sym.lift(out[i] - guess[i]).is_zero() for i in range(6))
    if moved:
        w.prove_close(out, [guess[i] + d[i] for i in range(6)], 0, 'kernel applied the full Newton step')
        return
    w.prove(H.AND(*[w.abs(d[i]) < tol_a for i in range(6)]),
            'kernel stopped on the step criterion only with every step component below tolerance', model_only=True)


def h_concrete(w):
    """full Newton / fsolve runs from the NEUTRAL pose on the JSON-style and parametric constructors (not encodable symbolically)"""
    import numpy as np
    km = w.lib('kinematics.sp_model')
    tm = w.lib('general').tm
    br = w.real('br', 0.2, 2.0)
    ratio = w.real('ratio', 0.3, 1.0)
    bs, ts = w.real('bs', 5, 40), w.real('ts', 5, 40)
    th = w.real('thick', 0, 0.1) * br
    lmin = w.real('lmin', 0.8, 1.5) * br
    lmax = lmin * w.real('stroke', 1.5, 2.0)
    rot = 1 if w.real('hand', 0, 1) > 0.5 else -1
    base = tm([w.real('bx', -2, 2), w.real('by', -2, 2), w.real('bz', -1, 1), w.real('ba', -1.8, 1.8), w.real('bb', -1.8, 1.8), w.real('bc', -1.8, 1.8)])
    sp = km.newSP(br, br * ratio, bs, ts, th, th, 0, 0, 0, 0, 0, 0, lmin, lmax, base, 'g', rot)
    if w.real('spin_on', 0, 1) > 0.7:
        sp.spinCustom(w.real('spin', -3.0, 3.0))
    neutral_rel = sp.getCurrentLocalTransform().copy()
    H0 = float(neutral_rel[2])
    rel = tm([w.real('rx', -0.2, 0.2) * H0, w.real('ry', -0.2, 0.2) * H0, H0 * (1 + w.real('rz', -0.15, 0.15)),
              w.real('ra', -0.3, 0.3), w.real('rb', -0.3, 0.3), w.real('rc', -0.3, 0.3)])
    goal = sp.getBottomT() @ rel
    lens, valid = sp.IK(goal)
    if not valid or np.max(np.abs(sp.getTopT().gTM() - goal.gTM())) > 1e-9:
        from ..world import HarnessReject
        raise HarnessReject('outside the workspace (corrective action taken)')
    b, t = sp.getBottomJoints(), sp.getTopJoints()
    w.prove_close(lens.reshape(-1), np.linalg.norm(t - b, axis=0), 1e-9, 'IK lengths = joint distances')
    req = lens.copy()
    if w.real('plate_arg', 0, 1) > 0.6:
        # FK with an explicit fixed-plate pose different from the current base
        nb = tm([w.real('nx', -2, 2), w.real('ny', -2, 2), w.real('nz', -1, 1), w.real('na', -1.8, 1.8), w.real('nb', -1.8, 1.8), w.real('nc', -1.8, 1.8)])
        rel_goal = np.linalg.inv(sp.getBottomT().gTM()) @ goal.gTM()
        for mode in (1, 0):
            top, ok = sp.FK(req.reshape(-1).copy(), plate_pos=nb.copy(), fk_mode=mode)
            w.prove_close(top.gTM(), nb.gTM() @ rel_goal, 1e-3 * H0, 'FK(L, plate_pos=B\') returns B\' * relative pose (fk_mode %d)' % mode)
            w.prove_close(sp.getTopT().gTM(), nb.gTM() @ rel_goal, 1e-3 * H0, 'FK(L, plate_pos=B\') publishes the re-based top pose (fk_mode %d)' % mode)
            w.prove_close(sp.getBottomT().gTM(), nb.gTM(), 1e-9, 'FK(L, plate_pos=B\') publishes the requested base (fk_mode %d)' % mode)
            w.prove_close(sp.getLens().reshape(-1), req.reshape(-1), 1e-3 * H0, 'lengths after FK(L, plate_pos=B\') are the requested ones (fk_mode %d)' % mode)
        return
    for mode in (1, 0):
        sp.IK(sp.getBottomT() @ neutral_rel, protect=True)          # back to neutral
        top, ok = sp.FK(req.reshape(-1).copy(), fk_mode=mode)
        w.prove_close(top.gTM(), goal.gTM(), 1e-3 * H0, 'FK from the neutral pose recovers the pose (fk_mode %d)' % mode)
        w.prove_close(sp.getLens().reshape(-1), req.reshape(-1), 1e-3 * H0, 'lengths after FK are the requested ones (fk_mode %d)' % mode)
        w.prove_close(sp.getTopT().gTM(), goal.gTM(), 1e-3 * H0, 'published top pose after FK (fk_mode %d)' % mode)
        w.prove_close(sp.getTopJoints(), (sp.getTopT().gTM() @ np.vstack([sp._top_joints_local, np.ones((1, 6))]))[0:3], 1e-9,
                      'published top joints after FK = published pose applied to the plate-fixed coordinates (fk_mode %d)' % mode)


def cases(tier, seed):
    cs = [Case('ik_geometry_I', h_ik_geometry, params=dict(base='I')), Case('ik_geometry_B1', h_ik_geometry, params=dict(base='B1'))]
    for state in ('fresh', 'moved', 'spun'):
        for mode in (1, 0):
            pr = dict(state=state, fk_mode=mode, base='I')
            if state == 'moved' and mode == 0:
                pr['move_to'] = 'TR'      # rotated base + fsolve route: polynomial blow-up (> 400 s) in Exp of the re-derived relative pose; translated base instead (rotated bases: mode 1 symbolically, mode 0 by concrete sampling)
            cs.append(Case('fk_fixed_point_%s_mode%d' % (state, mode), h_fk_fixed_point, params=pr))
    cs.append(Case('fk_fixed_point_fresh_B1', h_fk_fixed_point, params=dict(state='fresh', fk_mode=1, base='B1')))
    cs.append(Case('fk_fixed_point_plate_arg_mode1', h_fk_fixed_point, params=dict(state='plate_arg', fk_mode=1, base='I', new_base='B2')))
    cs.append(Case('fk_fixed_point_plate_arg_B1_mode1', h_fk_fixed_point, params=dict(state='plate_arg', fk_mode=1, base='B1', new_base='B3')))
    cs.append(Case('kernel_stop_criterion', h_kernel_stop, concrete_samples=0))
    cs.append(Case('newSP_full_solvers', h_concrete, concrete_only=True, concrete_samples=int(__import__('os').environ.get('C09_SAMPLES', '1500' if tier == 'quick' else '10000'))))
    return cs
