"""C10 - Stewart platform state stays coherent and 'valid' means valid over any history (DESIGN 5, C10)."""
from fractions import Fraction as F
from ..run import Case
from .. import hlib as H
from .. import arms as A
from .. import sp as P

PROPERTY = 'C10'
LEVEL = 'model_checking'
ENCODED = ['kinematics.sp_model.SP: __init__, IK, _IKHelper, _setPlatePos, move, spinCustom, validate(donothing=True) with _legLengthConstraint, '
           '_continuousTranslationConstraint, _plateRotationConstraint, inverseJacobian, getters', 'fmr.SPIKinSpace',
           'corrective actions, both FK solvers, reverse FK, randomPos: concrete history sampling only']
BOUNDS = {
    'quick': 'ONE INDUCTIVE STEP from an arbitrary coherent state (reached by IK at symbolic bottom and top poses): IK to new symbolic poses, move by a '
             'symbolic rigid motion, spinCustom by a symbolic angle (from a neutral relative pose), Jacobian / force queries, validate(donothing) - '
             'after each the published state is coherent (joints = pose * plate-fixed coordinates, lengths = distances, relative transform = '
             'inv(bottom) * top); verdict True of validate(donothing=True) implies the enabled leg-length / not-inverted / tilt constraints for each '
             'single switch and all three together. Histories with corrective actions: 300 random histories of length <= 25 (thorough 3000).',
    'thorough': 'same, 3000 histories',
}
OUTSIDE = ['corrective actions (rescale / boost / subtract legs, un-invert, reset), FK solvers inside a history and the joint-deflection constraint '
           '(arccos of normalised symbolic vectors) are NOT encoded: concrete histories only', 'histories are sampled, not enumerated']
ASSUMPTIONS = ['summary mode for Exp/Log of composed rotations (C01 contracts)', 'pinv via defining equations (queries)',
               'a coherent state is characterised by (bottom pose, top pose, plate-fixed coordinates): every publishing path goes through _IKHelper']
EXPLORER_DEFAULTS = {'quick': dict(prove_timeout_ms=20000, branch_timeout_ms=3000, time_budget_s=600, max_paths=60, max_decisions=200),
                     'thorough': dict(prove_timeout_ms=60000, branch_timeout_ms=5000, time_budget_s=1200, max_paths=200, max_decisions=300)}
TOL = '1e-9'


def _coherent(w, sp, g, Tb, Tt, bj, tj, tag):
    bpts, tpts = P.joint_points(w, Tb, bj), P.joint_points(w, Tt, tj)
    w.prove_close(sp.getBottomT().gTM(), Tb, TOL, tag + ': bottom pose')
    w.prove_close(sp.getTopT().gTM(), Tt, TOL, tag + ': top pose')
    w.prove_close(sp.getBottomJoints(), w.array(bpts).T, TOL, tag + ': bottom joints = bottom pose * plate-fixed coordinates')
    w.prove_close(sp.getTopJoints(), w.array(tpts).T, TOL, tag + ': top joints = top pose * plate-fixed coordinates')
    L = sp.getLens().reshape(-1)
    for i in range(6):
        w.prove_close(L[i] * L[i], P.sq(tpts[i], bpts[i]), TOL, tag + ': leg %d length = joint distance' % i)
        w.prove(L[i] >= 0, tag + ': leg %d length non-negative' % i)
    w.prove_close(sp.getCurrentLocalTransform().gTM(), H.T_inv(w, Tb) @ Tt, TOL, tag + ': relative transform = inv(bottom) * top')
    return bpts, tpts


def _pre(w):
    """arbitrary coherent pre-state"""
    sp, g = P.make_sp(w, w.params.get('base', 'I'))
    tm = g['tm']
    bt, Tb = P.sym_pose(w, 'B')
    tt, Tt = P.sym_pose(w, 'T')
    sp.IK(tm(tt), tm(bt), protect=True)
    return sp, g, tm, Tb, Tt


def h_step_ik(w):
    sp, g, tm, Tb, Tt = _pre(w)
    w.witness()
    nt, Tn = P.sym_pose(w, 'N')
    sp.IK(tm(nt), protect=True)                                  # top only: bottom kept
    _coherent(w, sp, g, Tb, Tn, g['bj'], g['tj'], 'IK(top)')
    nb, Tnb = P.sym_pose(w, 'M')
    sp.IK(None, tm(nb), protect=True)                            # bottom only: top kept
    _coherent(w, sp, g, Tnb, Tn, g['bj'], g['tj'], 'IK(bottom)')


def h_step_move(w):
    # bottom at the rational base B1, top symbolic (three symbolic rotations in one product exceed the budget)
    sp, g = P.make_sp(w, w.params.get('base', 'B1'))
    tm = g['tm']
    Tb = g['B']
    tt, Tt = P.sym_pose(w, 'T')
    sp.IK(tm(tt), protect=True)
    L0 = [sp.getLens().reshape(-1)[i] for i in range(6)]
    w.witness()
    mt, Tm = P.sym_pose(w, 'M')
    sp.move(tm(mt), protect=True)
    Tt2 = Tm @ H.T_inv(w, Tb) @ Tt
    _coherent(w, sp, g, Tm, Tt2, g['bj'], g['tj'], 'move')
    L1 = sp.getLens().reshape(-1)
    w.prove_close([L1[i] * L1[i] for i in range(6)], [x * x for x in L0], TOL, 'move keeps the leg lengths')


def h_step_spin(w):
    sp, g = P.make_sp(w, w.params.get('base', 'B1'))
    Tb = g['B']
    Tt = Tb @ H.T_of(w, H.eye(w, 3), [0, 0, P._c(w, P.HEIGHT)])
    L0 = [sp.getLens().reshape(-1)[i] for i in range(6)]
    a = w.angle('spin', w.const('1e-2'), w.const('1.5'))
    w.witness()
    sp.spinCustom(a)
    c, s = w.cos(a), w.sin(a)
    rot = lambda tab: [[c * tab[0][i] - s * tab[1][i] for i in range(6)], [s * tab[0][i] + c * tab[1][i] for i in range(6)], list(tab[2])]
    nbj, ntj = rot(g['bj']), rot(g['tj'])
    w.prove_close(sp._bottom_joints_local, w.array(nbj), TOL, 'spinCustom: bottom plate-fixed coordinates rotated about the plate normal')
    w.prove_close(sp._top_joints_local, w.array(ntj), TOL, 'spinCustom: top plate-fixed coordinates rotated about the plate normal')
    _coherent(w, sp, g, Tb, Tt, nbj, ntj, 'spinCustom')
    L1 = sp.getLens().reshape(-1)
    w.prove_close([L1[i] * L1[i] for i in range(6)], [x * x for x in L0], TOL, 'spinCustom keeps the leg lengths')
    w.prove_close(sp._bottom_joints_init, w.array(nbj).T, TOL, 'spinCustom: FK joint table (bottom) follows')
    w.prove_close(sp._top_joints_init, w.array(ntj).T, TOL, 'spinCustom: FK joint table (top) follows')


def h_queries(w):
    if w.symbolic:
        from .. import lazylin
        lazylin.install()
    sp, g, tm, Tb, Tt = _pre(w)
    w.witness()
    Wr = w.lib('general').Wrench
    qt, Tq = P.sym_pose(w, 'Q')
    sp.inverseJacobian(top_plate_pos=tm(qt))
    _coherent(w, sp, g, Tb, Tt, g['bj'], g['tj'], 'after inverseJacobian(other pose)')
    f = w.reals('W', 6, -5, 5)
    sp.staticForces(Wr(w.array(f).reshape((6, 1))))
    sp.carryMassCalc(Wr(w.array(f).reshape((6, 1))), protect=True)
    sp.sumActuatorWrenches(w.array(f))
    _coherent(w, sp, g, Tb, Tt, g['bj'], g['tj'], 'after force queries')


def h_verdict(w):
    sp, g = P.make_sp(w, w.params.get('base', 'I'))
    tm = g['tm']
    Tb = g['B']
    # rotation about a FIXED rational axis by a symbolic angle + symbolic translation (a free axis makes the leg-limit branch
    # queries - six square roots of quartics in 7 unknowns - hang inside the solver)
    if w.params.get('blind'):
        th = w.angle('Rth', w.const('1e-3'), w.const('1.4'))
        u = [P._c(w, x) for x in w.params.get('axis', (F(2, 7), F(3, 7), F(6, 7)))]
        pr = w.reals('Rp', 3, F(-3, 2), F(3, 2))
        Trel = H.T_of(w, H.rodrigues(w, u, th), pr)
    else:
        rel, Trel = P.sym_pose(w, 'R', plim=F(3, 2), thmax=w.const('1.4'))
    Tt = Tb @ Trel
    sp.IK(tm(Tt), protect=True)
    sw = w.params['switches']
    sp.validation_settings = list(sw)
    w.witness()
    if w.symbolic and w.params.get('blind'):
        # only the leg-limit predicate is explored blindly (its feasibility queries hang); everything else is decided by the solver
        real_pred = sp._legLengthConstraint

        def blind_pred():
            w.ctx.ex.blind_branches = True
            try:
                return real_pred()
            finally:
                w.ctx.ex.blind_branches = False
        sp._legLengthConstraint = blind_pred
    v = sp.validate(True)
    _coherent(w, sp, g, Tb, Tt, g['bj'], g['tj'], 'validate(donothing) is pure')
    if v:
        L = sp.getLens().reshape(-1)
        lmin, lmax = P._c(w, P.LMIN), P._c(w, P.LMAX)
        if sw[0]:
            w.prove(H.AND(*[H.AND(L[i] >= lmin, L[i] <= lmax) for i in range(6)]), 'verdict valid => every leg within its limits')
        if sw[1]:
            w.prove(Trel[2][3] >= 0, 'verdict valid => top plate on the positive side of the bottom plate')
        if sw[3]:
            lim = sp.plate_rotation_limit - w.const('1e-4')       # the library's own limit cos(60 deg) and margin
            w.prove(H.AND(*[Trel[i][i] > lim - w.const('1e-9') for i in range(3)]), 'verdict valid => plate tilt within the limit')
        D2 = sum((Trel[k][3] * Trel[k][3] for k in range(3)), 0)
        w.prove(w.sqrt(D2) <= 2 * P._c(w, P.HEIGHT) + w.const('1e-9'), 'verdict valid => plates no further apart than twice the neutral height')


OPS = ['IKin', 'IKout', 'FKin', 'FKout', 'FKrev', 'move', 'spin', 'validate', 'invJ', 'static', 'carry', 'mode', 'random', 'switches']


def h_histories(w):
    import numpy as np
    km = w.lib('kinematics.sp_model')
    G = w.lib('general')
    tm, Wrench = G.tm, G.Wrench
    br = w.real('br', 0.2, 2.0)
    ratio = w.real('ratio', 0.3, 1.0)
    bs, ts = w.real('bs', 5, 40), w.real('ts', 5, 40)
    th = w.real('thick', 0, 0.1) * br
    lmin = w.real('lmin', 0.8, 1.5) * br
    lmax = lmin * w.real('stroke', 1.5, 2.0)
    rot = 1 if w.real('hand', 0, 1) > 0.5 else -1
    pose = lambda n: tm([w.real(n + 'x', -2, 2), w.real(n + 'y', -2, 2), w.real(n + 'z', -2, 2), w.real(n + 'a', -1.5, 1.5), w.real(n + 'b', -1.5, 1.5), w.real(n + 'c', -1.5, 1.5)])
    sp = km.newSP(br, br * ratio, bs, ts, th, th, 0, 0, 0, 0, 0, 0, lmin, lmax, pose('base'), 'g', rot)
    sp._top_plate_mass, sp._act_shaft_mass, sp._act_shaft_grav_center = 2.0, 0.2, 0.2 * br
    sw = int(w.real('switches', 0, 16)) % 16
    sp.validation_settings = [(sw >> k) & 1 for k in range(4)]
    H0 = float(sp.getCurrentLocalTransform()[2])
    n_steps = 1 + int(w.real('steps', 0, 25)) % 25
    np.random.seed(int(w.real('npseed', 0, 1000)))

    def coherent(tag):
        B, T = sp.getBottomT().gTM(), sp.getTopT().gTM()
        scale = 1e-9 * (1 + float(np.max(np.abs(B[0:3, 3]))) + float(np.max(np.abs(T[0:3, 3]))))
        bj = (B @ np.vstack([sp._bottom_joints_local, np.ones((1, 6))]))[0:3]
        tj = (T @ np.vstack([sp._top_joints_local, np.ones((1, 6))]))[0:3]
        w.prove_close(sp.getBottomJoints(), bj, scale, tag + ': bottom joints = bottom pose * plate-fixed coordinates')
        w.prove_close(sp.getTopJoints(), tj, scale, tag + ': top joints = top pose * plate-fixed coordinates')
        w.prove_close(np.asarray(sp.getLens()).reshape(-1), np.linalg.norm(sp.getTopJoints() - sp.getBottomJoints(), axis=0), scale,
                      tag + ': leg lengths = joint distances')
        w.prove_close(sp.getCurrentLocalTransform().gTM(), np.linalg.inv(B) @ T, scale * 10, tag + ': relative transform = inv(bottom) * top')

    def constraints(tag):
        vs = sp.validation_settings
        L = np.asarray(sp.getLens()).reshape(-1)
        rel = np.linalg.inv(sp.getBottomT().gTM()) @ sp.getTopT().gTM()
        if vs[0]:
            w.prove(bool(np.all(L >= sp.leg_ext_min - 1e-4) and np.all(L <= sp.leg_ext_max + 1e-4)), tag + ': verdict valid => legs within limits',
                    'lengths %s limits %s %s' % (L, sp.leg_ext_min, sp.leg_ext_max))
        if vs[1]:
            w.prove(bool(rel[2, 3] >= -1e-4), tag + ': verdict valid => top above bottom', 'z = %s' % rel[2, 3])
        if vs[2]:
            a = np.abs(sp.getJointAnglesFromNorm())
            w.prove(bool(not np.any(np.isnan(a)) and np.all(a <= sp.joint_deflection_max + 1e-4)), tag + ': verdict valid => joint deflection within limit',
                    'angles %s' % a)
        if vs[3]:
            w.prove(bool(all(rel[i, i] > sp.plate_rotation_limit - 2e-4 for i in range(3))), tag + ': verdict valid => plate tilt within limit',
                    'diag %s' % [rel[i, i] for i in range(3)])

    for k in range(n_steps):
        r = lambda j, lo, hi: w.real('s%d_%d' % (k, j), lo, hi)
        op = OPS[int(w.real('s%d_op' % k, 0, len(OPS))) % len(OPS)]
        tag = 'step %d %s' % (k, op)
        verdict = None
        pure = op in ('invJ', 'static', 'carry')
        if pure:
            ok_before = sp.validate(True)
            B0, T0 = sp.getBottomT().gTM().copy(), sp.getTopT().gTM().copy()
        if op == 'IKin':
            verdict = sp.IK(sp.getBottomT() @ tm([r(0, -.2, .2) * H0, r(1, -.2, .2) * H0, H0 * (1 + r(2, -.15, .15)), r(3, -.3, .3), r(4, -.3, .3), r(5, -.3, .3)]))[1]
        elif op == 'IKout':
            verdict = sp.IK(sp.getBottomT() @ tm([r(0, -1.5, 1.5) * H0, r(1, -1.5, 1.5) * H0, H0 * r(2, -0.5, 3), r(3, -1.5, 1.5), r(4, -1.5, 1.5), r(5, -1.5, 1.5)]))[1]
        elif op == 'FKin':
            verdict = sp.FK(np.array([r(j, lmin * 1.02, lmax * 0.98) for j in range(6)]))[1]
        elif op == 'FKout':
            verdict = sp.FK(np.array([r(j, lmin * 0.5, lmax * 1.5) for j in range(6)]))[1]
        elif op == 'FKrev':
            verdict = sp.FK(np.array([r(j, lmin * 1.02, lmax * 0.98) for j in range(6)]), reverse=True)[1]
        elif op == 'move':
            sp.move(tm([r(0, -2, 2), r(1, -2, 2), r(2, -2, 2), r(3, -1.5, 1.5), r(4, -1.5, 1.5), r(5, -1.5, 1.5)]))
        elif op == 'spin':
            sp.spinCustom(r(0, -1, 1))
        elif op == 'validate':
            verdict = sp.validate()
        elif op == 'invJ':
            sp.inverseJacobian()
        elif op == 'static':
            sp.staticForces(Wrench(np.array([r(j, -5, 5) for j in range(6)]).reshape((6, 1))))
        elif op == 'carry':
            sp.carryMassCalc(Wrench(np.array([r(j, -5, 5) for j in range(6)]).reshape((6, 1))))
        elif op == 'mode':
            sp.fk_mode = 1 - sp.fk_mode
        elif op == 'random':
            sp.randomPos(max_attempts=3)
        elif op == 'switches':
            sw = int(r(0, 0, 16)) % 16
            sp.validation_settings = [(sw >> j) & 1 for j in range(4)]
        coherent(tag)
        if verdict is not None and verdict:
            constraints(tag)
        if pure and ok_before:
            w.prove_close(sp.getBottomT().gTM(), B0, 1e-9, tag + ': pure query leaves the bottom pose unchanged')
            w.prove_close(sp.getTopT().gTM(), T0, 1e-9 * (1 + float(np.max(np.abs(T0)))), tag + ': pure query leaves the top pose unchanged')


def cases(tier, seed):
    cs = [Case('step_ik', h_step_ik, params=dict(base='I')),
          Case('step_move', h_step_move, params=dict(base='B1')),
          Case('step_spin_B1', h_step_spin, params=dict(base='B1')),
          Case('step_spin_I', h_step_spin, params=dict(base='I')),
          Case('queries_pure', h_queries, params=dict(base='I'))]
    for sw in ((1, 0, 0, 0), (0, 1, 0, 0), (0, 0, 0, 1), (0, 0, 0, 0)) + (((1, 1, 0, 1),) if tier == 'thorough' else ()):
        # leg-limit decisions: feasibility queries over six square roots hang in nlsat -> blind forking (see engine.Explorer)
        cs.append(Case('verdict_switches_%d%d%d%d' % sw, h_verdict, params=dict(base='I', switches=sw, blind=bool(sw[0])), opts=dict(max_paths=600)))
    cs.append(Case('histories', h_histories, concrete_only=True, concrete_samples=300 if tier == 'quick' else 3000))
    return cs
