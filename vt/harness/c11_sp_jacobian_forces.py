"""C11 - Stewart platform inverse Jacobian is d(legs)/d(twist); leg forces balance the load (DESIGN 5, C11)."""
from fractions import Fraction as F
from ..run import Case
from .. import hlib as H
from .. import arms as A
from .. import sp as P

PROPERTY = 'C11'
LEVEL = 'model_checking'
ENCODED = ['kinematics.sp_model.SP: inverseJacobian, carryMassCalc, sumActuatorWrenches, getActuatorLoc, IK, _IKHelper, move',
           'kinematics.robot_model.Robot: staticForces, staticForcesInv, staticForcesBody, staticForcesInvBody, jacobian, jacobianBody',
           'general.faser_general.makeWrench, getUnitVec; general.faser_wrench.Wrench (constructor, +, copy); fmr.Normalize']
BOUNDS = {
    'quick': 'one platform geometry (rational plate-fixed joints); bottom AND top plate pose symbolic (axis-angle, |p| <= 2); symbolic twist, '
             'symbolic wrench (moment, force) and symbolic leg forces; rational masses / centre-of-gravity offsets, g = (0, 0, -981/100)',
    'thorough': 'same + platform moved by a symbolic rigid motion after construction at base B1',
}
OUTSIDE = ['the numerical pseudo-inverse itself (modelled by its defining equations, non-singular case)', 'condition-number bound and '
           'Richardson differences of the property text are replaced by the exact derivative (closed form below)',
           'carryMassCalcBody (the property names the space-frame variant)']
ASSUMPTIONS = ['np.linalg.pinv of a square matrix M applied to v = fresh x with M x = v (non-singular M); adjoints of rigid motions inverted '
               'explicitly', 'd/dt |t_i - b_i| = n_i . (w x t_i + v) for a point t_i carried by the spatial twist (w, v)  [oracle]',
               'summary mode for Exp/Log of composed rotations (C01 contracts)']
EXPLORER_DEFAULTS = {'quick': dict(prove_timeout_ms=30000, branch_timeout_ms=3000, time_budget_s=600, max_paths=30, max_decisions=200),
                     'thorough': dict(prove_timeout_ms=90000, branch_timeout_ms=5000, time_budget_s=1200, max_paths=100, max_decisions=300)}
TOL = '1e-8'
MASSES = dict(_top_plate_mass=F(7, 2), _bottom_plate_mass=F(9, 2), _act_shaft_mass=F(3, 10), _act_motor_mass=F(4, 5),
              _act_shaft_grav_center=F(1, 4), _act_motor_grav_center=F(1, 5))


def _setup(w):
    if w.symbolic:
        from .. import lazylin
        lazylin.install()
    sp, g = P.make_sp(w, w.params.get('base', 'I'))
    tm = g['tm']
    for k, v in MASSES.items():
        setattr(sp, k, P._c(w, v))
    sp.grav = w.array([0, 0, P._c(w, F(-981, 100))])
    if w.params.get('posed', 'both') == 'both':
        bt, Tb = P.sym_pose(w, 'B')
        tt, Tt = P.sym_pose(w, 'T')
        sp.IK(tm(tt), tm(bt), protect=True)
    elif w.params['posed'] == 'moved':
        bt, Tb = P.sym_pose(w, 'B')
        sp.move(tm(bt), protect=True)
        rel, Trel = P.sym_pose(w, 'R', plim=F(3, 10), thmax=w.const('0.3'))
        Tt = Tb @ H.T_of(w, H.eye(w, 3), [0, 0, P._c(w, P.HEIGHT)]) @ Trel
        sp.IK(tm(Tt), protect=True)
    else:
        Tb = g['B']
        tt, Tt = P.sym_pose(w, 'T')
        sp.IK(tm(tt), protect=True)
    bpts, tpts = P.joint_points(w, Tb, g['bj']), P.joint_points(w, Tt, g['tj'])
    lens = [sp.getLens()[i, 0] for i in range(6)]
    return sp, g, Tb, Tt, bpts, tpts, lens


def _cols(w, bpts, tpts, lens):
    """l_i * column i of invJ^T = [b_i x (t_i - b_i), t_i - b_i]"""
    out = []
    for i in range(6):
        d = [tpts[i][k] - bpts[i][k] for k in range(3)]
        out.append(H.cross(bpts[i], d) + d)
    return out


def h_inverse_jacobian(w):
    sp, g, Tb, Tt, bpts, tpts, lens = _setup(w)
    w.witness()
    J = sp.inverseJacobian()
    w.prove_shape(J, (6, 6), 'inverse Jacobian is 6x6')
    cols = _cols(w, bpts, tpts, lens)
    om = w.reals('om', 3, -2, 2)
    v = w.reals('v', 3, -2, 2)
    V = om + v
    for i in range(6):
        w.prove_close([J[i, k] * lens[i] for k in range(6)], cols[i], TOL, 'row %d = [b x n, n] with n the unit leg direction' % i)
        rate = sum((J[i, k] * V[k] for k in range(6)), 0)
        vel = [a + b for a, b in zip(H.cross(om, tpts[i]), v)]
        w.prove_close(rate * lens[i], sum(((tpts[i][k] - bpts[i][k]) * vel[k] for k in range(3)), 0), TOL,
                      'leg %d: rate = inverse Jacobian row . twist = d(length)/dt under the spatial twist' % i)
    w.prove_close(sp.getTopT().gTM(), Tt, TOL, 'Jacobian query leaves the top pose unchanged')
    w.prove_close(sp.getBottomT().gTM(), Tb, TOL, 'Jacobian query leaves the bottom pose unchanged')
    w.prove_close(sp.getLens().reshape(-1), lens, TOL, 'Jacobian query leaves the leg lengths unchanged')
    # query at another pose: same matrix as when standing there, state restored
    tm = g['tm']
    qt, Tq = P.sym_pose(w, 'Q')
    J2 = sp.inverseJacobian(top_plate_pos=tm(qt))
    qpts = P.joint_points(w, Tq, g['tj'])
    for i in range(6):
        d = [qpts[i][k] - bpts[i][k] for k in range(3)]
        n2 = sum((x * x for x in d), 0)
        w.prove_close([J2[i, k] * J2[i, k] * n2 for k in range(3, 6)], [x * x for x in d], TOL, 'query pose row %d: direction part (squared)' % i)
    # query with BOTH plates given explicitly (a base different from the one the platform stands on)
    nb, Tn = P.sym_pose(w, 'N')
    J3 = sp.inverseJacobian(top_plate_pos=tm(qt), bottom_plate_pos=tm(nb))
    nbpts = P.joint_points(w, Tn, g['bj'])
    for i in range(6):
        d = [qpts[i][k] - nbpts[i][k] for k in range(3)]
        n2 = sum((x * x for x in d), 0)
        w.prove_close([J3[i, k] * J3[i, k] * n2 for k in range(3, 6)], [x * x for x in d], TOL, 'explicit base: row %d direction part (squared)' % i)
        w.prove_close([J3[i, k] for k in range(3)], H.cross(nbpts[i], [J3[i, 3], J3[i, 4], J3[i, 5]]), TOL,
                      'explicit base: row %d moment part = (bottom joint of the REQUESTED base) x direction' % i)
    w.prove_close(sp.getBottomT().gTM(), Tb, TOL, 'Jacobian query with an explicit base restores the bottom pose')
    w.prove_close(sp.getTopT().gTM(), Tt, TOL, 'Jacobian query at another pose restores the top pose')
    w.prove_close(sp.getLens().reshape(-1), lens, TOL, 'Jacobian query at another pose restores the leg lengths')
    w.prove_close(sp.getTopJoints(), w.array(tpts).T, TOL, 'Jacobian query at another pose restores the top joints')


def _wrench(w, name, frame=None):
    Wr = w.lib('general').Wrench
    m = w.reals(name + 'm', 3, -5, 5)
    f = w.reals(name + 'f', 3, -5, 5)
    vec = m + f
    if frame is None:
        return Wr(w.array(vec).reshape((6, 1))), vec
    return Wr(w.array(vec).reshape((6, 1)), None, frame), vec


def _legs_wrench(w, tau, cols, lens):
    """sum_i tau_i * [t_i x n_i, n_i]  (note t x n = b x n)"""
    return [sum((tau[i] * cols[i][k] / lens[i] for i in range(6)), 0) for k in range(6)]


def h_statics_space(w):
    sp, g, Tb, Tt, bpts, tpts, lens = _setup(w)
    cols = _cols(w, bpts, tpts, lens)
    W, vec = _wrench(w, 'W')
    w.witness()
    tau = sp.staticForces(W)
    tau = [tau.reshape(-1)[i] for i in range(6)]
    w.prove_close(_legs_wrench(w, tau, cols, lens), vec, TOL, 'space frame: legs\' summed wrench on the plate equals the applied wrench')
    back = sp.staticForcesInv(w.array(tau).reshape((6, 1)))
    w.prove_close(back.data.reshape(-1), vec, TOL, 'space frame: staticForcesInv(staticForces(W)) = W')
    sw = sp.sumActuatorWrenches(w.array(tau))
    w.prove_close(sw.data.reshape(-1), [-x for x in vec], TOL, 'sumActuatorWrenches(forces) = - applied wrench (reaction on the base)')
    # arbitrary leg forces: the mapping itself
    f = w.reals('f', 6, -5, 5)
    sw2 = sp.sumActuatorWrenches(w.array(f))
    w.prove_close(sw2.data.reshape(-1), [-x for x in _legs_wrench(w, f, cols, lens)], TOL, 'sumActuatorWrenches(f) = - sum f_i [t_i x n_i, n_i] for arbitrary f')
    Wf = sp.staticForcesInv(w.array(f).reshape((6, 1)))
    w.prove_close(Wf.data.reshape(-1), _legs_wrench(w, f, cols, lens), TOL, 'staticForcesInv(f) = sum f_i [t_i x n_i, n_i] for arbitrary f')


def h_statics_body(w):
    sp, g, Tb, Tt, bpts, tpts, lens = _setup(w)
    cols = _cols(w, bpts, tpts, lens)
    W, vec = _wrench(w, 'W')
    w.witness()
    tau = sp.staticForcesBody(W)
    tau = [tau.reshape(-1)[i] for i in range(6)]
    # body wrench F_b at the plate frame  <->  space wrench F_s = Ad(T^-1)^T F_b
    AdInv = H.Ad_of(w, H.T_inv(w, Tt))
    Fs = [sum((AdInv[k][r] * vec[k] for k in range(6)), 0) for r in range(6)]
    w.prove_close(_legs_wrench(w, tau, cols, lens), Fs, TOL, 'body frame: legs\' summed wrench equals the applied body wrench expressed in space')
    back = sp.staticForcesInvBody(w.array(tau).reshape((6, 1)))
    w.prove_close(back.data.reshape(-1), vec, TOL, 'body frame: staticForcesInvBody(staticForcesBody(W)) = W')
    f = w.reals('f', 6, -5, 5)
    Wb = sp.staticForcesInvBody(w.array(f).reshape((6, 1)))
    Ad = H.Ad_of(w, Tt)
    Ls = _legs_wrench(w, f, cols, lens)
    w.prove_close(Wb.data.reshape(-1), [sum((Ad[k][r] * Ls[k] for k in range(6)), 0) for r in range(6)], TOL,
                  'staticForcesInvBody(f) = Ad(T)^T * sum f_i [t_i x n_i, n_i] for arbitrary f')


def h_carry_mass(w):
    sp, g, Tb, Tt, bpts, tpts, lens = _setup(w)
    cols = _cols(w, bpts, tpts, lens)
    W, vec = _wrench(w, 'W')
    w.witness()
    # protect=True: no validation (in-workspace poses validate anyway); the default call is exercised by concrete sampling
    tau, total = sp.carryMassCalc(W, protect=True) if w.symbolic else sp.carryMassCalc(W, protect=True)
    tau = [tau.reshape(-1)[i] for i in range(6)]
    gz = P._c(w, F(-981, 100))

    def weight(c, m):
        fz = [0, 0, m * gz]
        return H.cross(c, fz) + fz
    load = list(vec)
    ctop = [Tt[k][3] for k in range(3)]
    load = [a + b for a, b in zip(load, weight(ctop, P._c(w, MASSES['_top_plate_mass'])))]
    for i in range(6):
        d = P._c(w, MASSES['_act_shaft_grav_center'])
        c = [tpts[i][k] + (bpts[i][k] - tpts[i][k]) * d / lens[i] for k in range(3)]
        load = [a + b for a, b in zip(load, weight(c, P._c(w, MASSES['_act_shaft_mass'])))]
    w.prove_close(_legs_wrench(w, tau, cols, lens), load, TOL,
                  'carryMassCalc: legs carry the applied wrench + top plate weight + shaft weights at their centres of gravity')
    full = list(load)
    for i in range(6):
        d = P._c(w, MASSES['_act_motor_grav_center'])
        c = [bpts[i][k] + (tpts[i][k] - bpts[i][k]) * d / lens[i] for k in range(3)]
        full = [a + b for a, b in zip(full, weight(c, P._c(w, MASSES['_act_motor_mass'])))]
    cbot = [Tb[k][3] for k in range(3)]
    full = [a + b for a, b in zip(full, weight(cbot, P._c(w, MASSES['_bottom_plate_mass'])))]
    w.prove_close(total.data.reshape(-1), full, TOL, 'carryMassCalc: returned total wrench adds motor and bottom plate weights')
    w.prove_close(W.data.reshape(-1), vec, 0, 'carryMassCalc leaves the caller\'s wrench unchanged')


def h_concrete(w):
    """property ranges on the parametric constructor, DEFAULT arguments (validation on), real pseudo-inverse, Richardson differences"""
    import numpy as np
    km = w.lib('kinematics.sp_model')
    G = w.lib('general')
    tm, Wrench = G.tm, G.Wrench
    br = w.real('br', 0.2, 2.0)
    ratio = w.real('ratio', 0.3, 1.0)
    bs, ts = w.real('bs', 5, 40), w.real('ts', 5, 40)
    th = w.real('thick', 0, 0.1) * br
    lmin = w.real('lmin', 0.8, 1.5) * br
    lmax = lmin * w.real('stroke', 1.5, 2.0)
    rot = 1 if w.real('hand', 0, 1) > 0.5 else -1
    far = 10.0 if w.real('far', 0, 1) > 0.5 else 1.0      # far bases raise the condition number of the space-frame Jacobian
    base = tm([w.real('bx', -2, 2) * far, w.real('by', -2, 2) * far, w.real('bz', -1, 1) * far, w.real('ba', -1.8, 1.8), w.real('bb', -1.8, 1.8), w.real('bc', -1.8, 1.8)])
    sp = km.newSP(br, br * ratio, bs, ts, th, th, 0, 0, 0, 0, 0, 0, lmin, lmax, base, 'g', rot)
    sp._top_plate_mass, sp._bottom_plate_mass, sp._act_shaft_mass, sp._act_motor_mass = 3.5, 4.5, 0.3, 0.8
    sp._act_shaft_grav_center, sp._act_motor_grav_center = 0.25 * br, 0.2 * br
    H0 = float(sp.getCurrentLocalTransform()[2])
    rel = tm([w.real('rx', -0.2, 0.2) * H0, w.real('ry', -0.2, 0.2) * H0, H0 * (1 + w.real('rz', -0.15, 0.15)),
              w.real('ra', -0.3, 0.3), w.real('rb', -0.3, 0.3), w.real('rc', -0.3, 0.3)])
    goal = sp.getBottomT() @ rel
    lens, valid = sp.IK(goal)
    from ..world import HarnessReject
    if not valid or np.max(np.abs(sp.getTopT().gTM() - goal.gTM())) > 1e-9:
        raise HarnessReject('outside the workspace (corrective action taken)')
    J = sp.inverseJacobian()
    if np.linalg.cond(J) > 1e4:
        raise HarnessReject('ill-conditioned pose')
    top0, bot0, lens0 = sp.getTopT().gTM().copy(), sp.getBottomT().gTM().copy(), sp.getLens().copy()
    b, t = sp.getBottomJoints().copy(), sp.getTopJoints().copy()
    n = (t - b) / np.linalg.norm(t - b, axis=0)
    M = np.array([np.hstack([np.cross(t[:, i], n[:, i]), n[:, i]]) for i in range(6)])      # rows [t x n, n]
    # derivative by Richardson central differences on the library's own IK
    V = np.array([w.real('V%d' % i, -1, 1) for i in range(6)])
    mrh = w.lib('modern_robotics_numba.modern_high_performance') if False else None
    from scipy.linalg import expm

    def se3(V):
        o, v = V[0:3], V[3:6]
        return np.array([[0, -o[2], o[1], v[0]], [o[2], 0, -o[0], v[1]], [-o[1], o[0], 0, v[2]], [0, 0, 0, 0]])

    def L(s):
        Ts = expm(se3(V) * s) @ top0
        d = (Ts @ np.vstack([sp._top_joints_local, np.ones((1, 6))]))[0:3] - b
        return np.linalg.norm(d, axis=0)
    h = 2e-4          # truncation error ~ h^4 * (lever arm)^5: far bases need the small step
    D1 = (L(h) - L(-h)) / (2 * h)
    D2 = (L(h / 2) - L(-h / 2)) / h
    rich = (4 * D2 - D1) / 3
    w.prove_close(J @ V, rich, 1e-6, 'leg rates = inverse Jacobian * twist (Richardson differences of the leg lengths)')
    # the same matrix must come back when the poses are passed explicitly from another stance
    if w.real('explicit', 0, 1) > 0.5:
        other = tm([w.real('ex', -2, 2), w.real('ey', -2, 2), w.real('ez', -1, 1), w.real('ea', -1, 1), w.real('eb', -1, 1), w.real('ec', -1, 1)])
        sp.move(other)
        Jx = sp.inverseJacobian(top_plate_pos=tm(top0.copy()), bottom_plate_pos=tm(bot0.copy()))
        w.prove_close(Jx, J, 1e-8 * max(1.0, float(np.linalg.norm(J))), 'inverseJacobian(top, bottom) given explicitly from another stance = the matrix at that stance')
        w.prove_close(sp.getBottomT().gTM(), other.gTM(), 1e-9, 'explicit-pose Jacobian query restores the base')
        sp.IK(tm(top0.copy()), tm(bot0.copy()))
    Wv = np.array([w.real('W%d' % i, -5, 5) for i in range(6)])
    Wn = max(1.0, float(np.linalg.norm(Wv)))
    tau = sp.staticForces(Wrench(Wv.reshape((6, 1)).copy())).reshape(-1)
    w.prove_close(M.T @ tau, Wv, 1e-8 * Wn, 'space frame: legs\' summed wrench equals the applied wrench')
    w.prove_close(np.asarray(sp.staticForcesInv(tau.reshape((6, 1)).copy()).data).reshape(-1), Wv, 1e-8 * Wn, 'space frame: staticForcesInv(staticForces(W)) = W')
    w.prove_close(np.asarray(sp.sumActuatorWrenches(tau.copy()).data).reshape(-1), -Wv, 1e-8 * Wn, 'sumActuatorWrenches(forces) = - applied wrench')
    taub = sp.staticForcesBody(Wrench(Wv.reshape((6, 1)).copy())).reshape(-1)
    Tinv = np.linalg.inv(top0)
    R, p = Tinv[0:3, 0:3], Tinv[0:3, 3]
    ph = np.array([[0, -p[2], p[1]], [p[2], 0, -p[0]], [-p[1], p[0], 0]])
    AdInv = np.block([[R, np.zeros((3, 3))], [ph @ R, R]])
    w.prove_close(M.T @ taub, AdInv.T @ Wv, 1e-8 * Wn * (1 + float(np.linalg.norm(top0[0:3, 3]))), 'body frame: legs\' summed wrench equals the applied body wrench expressed in space')
    w.prove_close(np.asarray(sp.staticForcesInvBody(taub.reshape((6, 1)).copy()).data).reshape(-1), Wv, 1e-7 * Wn, 'body frame: staticForcesInvBody(staticForcesBody(W)) = W')
    g = np.asarray(sp.grav, dtype=float).reshape(-1)

    def weight(c, m):
        return np.hstack([np.cross(c, m * g), m * g])
    load = Wv + weight(top0[0:3, 3], 3.5)
    for i in range(6):
        load = load + weight(t[:, i] + (b[:, i] - t[:, i]) / np.linalg.norm(t[:, i] - b[:, i]) * sp._act_shaft_grav_center, 0.3)
    tauc, total = sp.carryMassCalc(Wrench(Wv.reshape((6, 1)).copy()))
    scale = 1e-8 * max(1.0, float(np.linalg.norm(load))) * (1 + float(np.linalg.norm(top0[0:3, 3])))
    w.prove_close(M.T @ np.asarray(tauc).reshape(-1), load, scale, 'carryMassCalc: legs carry the applied wrench + top plate weight + shaft weights at their centres of gravity')
    w.prove_close(sp.getTopT().gTM(), top0, 1e-9, 'queries leave the top pose unchanged')
    w.prove_close(sp.getBottomT().gTM(), bot0, 1e-9, 'queries leave the bottom pose unchanged')
    w.prove_close(sp.getLens(), lens0, 1e-9, 'queries leave the leg lengths unchanged')


def cases(tier, seed):
    cs = []
    for name, fn in (('inverse_jacobian', h_inverse_jacobian), ('statics_space', h_statics_space), ('statics_body', h_statics_body),
                     ('carry_mass', h_carry_mass)):
        cs.append(Case(name + '_both_symbolic', fn, params=dict(base='I', posed='both')))
        cs.append(Case(name + '_B1_top_symbolic', fn, params=dict(base='B1', posed='top')))
        if tier == 'thorough':
            cs.append(Case(name + '_moved', fn, params=dict(base='B1', posed='moved')))
    cs.append(Case('newSP_default_arguments', h_concrete, concrete_only=True, concrete_samples=300 if tier == 'quick' else 3000))
    return cs
