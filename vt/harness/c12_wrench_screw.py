"""C12 - wrenches and screws change frame as a group action and add as vectors (DESIGN 5, C12)."""
from ..run import Case
from .. import hlib as H

PROPERTY = 'C12'
LEVEL = 'model_checking'
ENCODED = ['general.faser_screw.Screw (ctor, copy, changeFrame, getData, operators + - * / and right-hand forms)',
           'general.faser_wrench.Wrench (ctor incl. force-at-point, changeFrame, getForce/getMoment, operators)',
           'general.faser_general.makeWrench/transformWrenchFrame', 'basic_helpers.globalToLocal', 'tm.adjoint/__eq__',
           'mr.Adjoint/GlobalToLocal (Exp/Log summarised with the C01 contracts)']
BOUNDS = {
    'quick': 'frames A, B, C = (p, theta*u): |p| <= 10, theta in [0, pi-1e-3] symbolic and pairwise distinct beyond the '
             'library\'s own 1e-8 frame-equality tolerance (plus the identical-frame case); all real 6-vectors, forces, '
             'points, scalars k != 0, s; operands as scalar / 6-array / 6x1 array / object',
    'thorough': 'same',
}
OUTSIDE = ['frames that differ by less than 1e-8 but are not identical (the library treats them as equal by design)',
           'floating point']
ASSUMPTIONS = ['summary mode for Exp/Log under composition (contracts from C01)']
EXPLORER_DEFAULTS = {'quick': dict(prove_timeout_ms=30000, time_budget_s=600, max_paths=300),
                     'thorough': dict(prove_timeout_ms=120000, time_budget_s=1200, max_paths=2000)}
TOL = '1e-8'


def _libs(w):
    if w.symbolic:
        from .. import summary as SM
        SM.install(w.env)
    g = w.lib('general')
    return g.tm, g.Screw, g.Wrench, g.fsr


def _frame(w, tm, name):
    th = w.angle(name + 'th', 0, w.pi - w.const('1e-3'))
    if w.symbolic:
        w.assume(th >= w.const('1e-6'))      # exact exponential; the cut-off window belongs to C01/C04
    elif th < 1e-6:
        from ..world import HarnessReject
        raise HarnessReject('window')
    u = w.unit3(name + 'u')
    p = w.reals(name + 'p', 3, -10, 10)
    return tm([p[0], p[1], p[2], th * u[0], th * u[1], th * u[2]])


def _distinct(w, *frames):
    for i in range(len(frames)):
        for j in range(i + 1, len(frames)):
            w.assume(H.NOT(frames[i] == frames[j]))


def _col(w, name):
    v = w.reals(name, 6, -100, 100)
    return v, w.array(v).reshape((6, 1))


def h_frame_action(w):
    tm, Screw, Wrench, fsr = _libs(w)
    A, B, C = _frame(w, tm, 'A'), _frame(w, tm, 'B'), _frame(w, tm, 'C')
    _distinct(w, A, B, C)
    cls = Wrench if w.params['kind'] == 'wrench' else Screw
    v, col = _col(w, 'x')
    w.witness()
    x = cls(col.copy(), None, A.copy()) if cls is Wrench else cls(col.copy(), A.copy())
    y = x.copy().changeFrame(B)
    w.prove_close(y.frame_applied.gTM(), B.gTM(), TOL, 'changeFrame records the target frame')
    # independent oracle from the homogeneous matrices
    Ta, Tb = A.gTM(), B.gTM()
    if cls is Wrench:
        # F_b = Ad(T_ab)^T F_a with T_ab = inv(Ta) Tb
        exp = H.Ad_of(w, H.T_inv(w, Ta) @ Tb).T @ col
    else:
        exp = H.Ad_of(w, H.T_inv(w, Tb) @ Ta) @ col
    w.prove_close(y.getData(), exp, TOL, 'changeFrame = adjoint action (oracle from the 4x4 matrices)')
    z = y.copy().changeFrame(A)
    w.prove_close(z.getData(), col, TOL, 'A->B->A is the identity')
    w.prove_close(z.frame_applied.gTM(), A.gTM(), TOL, 'A->B->A records frame A')
    viaB = x.copy().changeFrame(B).changeFrame(C)
    direct = x.copy().changeFrame(C)
    w.prove_close(viaB.getData(), direct.getData(), TOL, 'A->B->C = A->C')
    w.prove_close(x.getData(), col, 0, 'copy().changeFrame left the source untouched')
    same = x.copy().changeFrame(A.copy())
    w.prove_close(same.getData(), col, TOL, 'A->A is the identity')


def h_pairing(w):
    tm, Screw, Wrench, fsr = _libs(w)
    A, B = _frame(w, tm, 'A'), _frame(w, tm, 'B')
    _distinct(w, A, B)
    f, fcol = _col(w, 'f')
    v, vcol = _col(w, 'v')
    w.witness()
    F = Wrench(fcol.copy(), None, A.copy())
    V = Screw(vcol.copy(), A.copy())
    pa = H.dot(f, v)
    Fb, Vb = F.copy().changeFrame(B), V.copy().changeFrame(B)
    pb = H.dot([Fb[i] for i in range(6)], [Vb[i] for i in range(6)])
    w.prove_close(pb, pa, w.params.get('ptol', '1e-6'), 'wrench . twist is frame invariant')
    # transformWrenchFrame is the same action
    Fc = fsr.transformWrenchFrame(F.copy(), A, B)
    w.prove_close(Fc.getData(), Fb.getData(), TOL, 'transformWrenchFrame = changeFrame')


def h_moment(w):
    tm, Screw, Wrench, fsr = _libs(w)
    p = w.reals('p', 3, -10, 10)
    f = w.reals('f', 3, -100, 100)
    P = tm([p[0], p[1], p[2], 0, 0, 0])
    w.assume(H.NOT(P == tm()))     # frames closer than the library's 1e-8 equality tolerance count as equal
    w.witness()
    W = Wrench(w.array(f), P)
    w.prove_close(W.getMoment(), w.array(H.cross(p, f)).reshape((3, 1)), TOL, 'moment = p x f')
    w.prove_close(W.getForce(), w.array(f).reshape((3, 1)), 0, 'force kept')
    Wp = W.copy().changeFrame(P)
    w.prove_close(Wp.getMoment(), w.np.zeros((3, 1)), TOL, 'zero moment about its own point of application')
    w.prove_close(Wp.getForce(), w.array(f).reshape((3, 1)), TOL, 'force unchanged by a pure translation of frame')
    # makeWrench: magnitude * direction at a point
    m = w.real('m', -100, 100)
    d = w.unit3('d')
    W2 = fsr.makeWrench(P, m, d)
    fv = [m * d[0], m * d[1], m * d[2]]
    w.prove_close(W2.getForce(), w.array(fv).reshape((3, 1)), TOL, 'makeWrench force')
    w.prove_close(W2.getMoment(), w.array(H.cross(p, fv)).reshape((3, 1)), TOL, 'makeWrench moment = p x f')
    # with a rotated application frame as well
    th = w.angle('th', 0, w.pi - w.const('1e-3'))
    if w.symbolic:
        w.assume(th >= w.const('1e-6'))
    u = w.unit3('u')
    Q = tm([p[0], p[1], p[2], th * u[0], th * u[1], th * u[2]])
    W3 = Wrench(w.array(f), Q)
    w.prove_close(W3.getMoment(), w.array(H.cross(p, f)).reshape((3, 1)), TOL, 'moment uses the position only')


def h_mixed_sum(w):
    tm, Screw, Wrench, fsr = _libs(w)
    A, B = _frame(w, tm, 'A'), _frame(w, tm, 'B')
    _distinct(w, A, B)
    cls = Wrench if w.params['kind'] == 'wrench' else Screw
    a, acol = _col(w, 'a')
    b, bcol = _col(w, 'b')
    mk = (lambda c, fr: Wrench(c.copy(), None, fr.copy())) if cls is Wrench else (lambda c, fr: Screw(c.copy(), fr.copy()))
    w.witness()
    X, Y = mk(acol, A), mk(bcol, B)
    Ya = Y.copy().changeFrame(A)
    S_ = X + Y
    w.prove_close(S_.getData(), acol + Ya.getData(), TOL, 'sum in different frames = sum in the left frame')
    w.prove_close(S_.frame_applied.gTM(), A.gTM(), TOL, 'sum is expressed in the left operand\'s frame')
    D = X - Y
    w.prove_close(D.getData(), acol - Ya.getData(), TOL, 'difference in different frames')
    w.prove_close(D.frame_applied.gTM(), A.gTM(), TOL, 'difference is expressed in the left operand\'s frame')
    w.prove_close(Y.getData(), bcol, 0, 'right operand not modified')
    w.prove_close(Y.frame_applied.gTM(), B.gTM(), TOL, 'right operand keeps its frame')
    w.prove_close(((X + Y) - Y).getData(), acol, TOL, '(a+b)-b = a (mixed frames)')


def _data(x):
    return x.getData() if hasattr(x, 'getData') else x


def h_vector_space(w):
    tm, Screw, Wrench, fsr = _libs(w)
    cls = Wrench if w.params['kind'] == 'wrench' else Screw
    a, acol = _col(w, 'a')
    b, bcol = _col(w, 'b')
    s = w.real('s', -100, 100)
    k = w.real('k', -100, 100)
    if w.symbolic:
        w.assume(k != 0)
    elif k == 0:
        from ..world import HarnessReject
        raise HarnessReject('k = 0')
    A = tm([1, 2, 3, 0, 0, 0])
    mk = (lambda c: Wrench(c.copy(), None, A.copy())) if cls is Wrench else (lambda c: Screw(c.copy(), A.copy()))
    X, Y = mk(acol), mk(bcol)
    w.witness()
    w.prove_close(_data((X + Y) - Y), acol, TOL, '(a+b)-b = a')
    w.prove_close(_data(X + Y), acol + bcol, TOL, 'a+b elementwise')
    w.prove_close(_data(X - Y), acol - bcol, TOL, 'a-b elementwise')
    w.prove_close(_data(X - s), _data(X + (-s)), TOL, 'a-s = a+(-s)')
    w.prove_close(_data(X - s), acol - s, TOL, 'a-s elementwise')
    w.prove_close(_data(s - X), -_data(X - s), TOL, 's-a = -(a-s)')
    w.prove_close(_data(s + X), _data(X + s), TOL, 's+a = a+s')
    w.prove_close(_data((k * X) / k), acol, TOL, '(k*a)/k = a')
    w.prove_close(_data((X * k) / k), acol, TOL, '(a*k)/k = a')
    w.prove_close(_data(k * X), k * acol, TOL, 'k*a elementwise')
    # operands as 6-array and 6x1 array
    b6 = w.array(b)
    w.prove_close(_data(X + b6), acol + bcol, TOL, 'a + 6-array')
    w.prove_close(_data(X + bcol), acol + bcol, TOL, 'a + 6x1 array')
    w.prove_close(_data(X - b6), acol - bcol, TOL, 'a - 6-array')
    w.prove_close(_data(X - bcol), acol - bcol, TOL, 'a - 6x1 array')
    w.prove_close(_data(b6 - X), bcol - acol, TOL, '6-array - a')
    w.prove_close(_data(bcol - X), bcol - acol, TOL, '6x1 array - a')
    w.prove_close(_data(b6 + X), acol + bcol, TOL, '6-array + a')
    w.prove_close(_data((X + b6) - b6), acol, TOL, '(a+arr)-arr = a')
    w.prove_close(X.getData(), acol, 0, 'left operand not modified')


def cases(tier, seed):
    cs = []
    for kind in ('wrench', 'screw'):
        cs.append(Case('frame_action_' + kind, h_frame_action, params=dict(kind=kind)))
        cs.append(Case('mixed_sum_' + kind, h_mixed_sum, params=dict(kind=kind)))
        cs.append(Case('vector_space_' + kind, h_vector_space, params=dict(kind=kind)))
    cs.append(Case('pairing', h_pairing))
    cs.append(Case('moment', h_moment))
    return cs
