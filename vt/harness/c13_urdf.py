"""C13 - loading a URDF preserves the kinematics the file describes (DESIGN 5, C13)."""
import os
import tempfile
from fractions import Fraction as F
from ..run import Case
from .. import hlib as H

PROPERTY = 'C13'
LEVEL = 'model_checking'
ENCODED = ['kinematics.arm_model.loadArmFromURDF (with the real xml.etree parser on generated files): extractOrigin, completeJointParse, '
           'completeLinkParse, parent/child wiring, world-link detection, mostChildren walk, determineAxis, screw construction',
           'Arm.__init__/initialize/FK/setNames/setJointProperties/setOrigins/setMassProperties', 'tm constructors and @']
BOUNDS = {
    'quick': 'generated single-chain URDFs: 1..3 moving joints (revolute / continuous), fixed joints before, between and after, with and '
             'without a world link, with and without inertial data; every numeric slot of the file is a SYMBOL (xyz real, rpy angles with '
             '|angle| >= 1e-6, generic unit axes) except where an attribute is omitted; each of origin / xyz / rpy / axis omitted in turn; '
             'joint values symbolic inside the declared limits; the three bundled URDFs by concrete sampling',
    'thorough': 'same plus 4 moving joints and more fixed-joint placements',
}
OUTSIDE = ['prismatic joints, side branches (excluded by the property)', 'the bundled URDFs are compared with an independent XML oracle on '
           'concrete joint samples only (their literals are floats; no symbolic claim)', 'more than 4 moving joints']
ASSUMPTIONS = ['string -> number conversions of the loader (np.array(strs, dtype=float), float(str), float-array item assignment) map each '
               'generated literal to its symbol', 'summary mode for Exp/Log of composed rotations (C01 contracts)']
EXPLORER_DEFAULTS = {'quick': dict(prove_timeout_ms=30000, time_budget_s=900, max_paths=60, max_decisions=120),
                     'thorough': dict(prove_timeout_ms=120000, time_budget_s=1200, max_paths=300, max_decisions=200)}
TOL = '1e-6'


class Gen:
    """URDF text generator with symbolic numeric slots"""

    def __init__(self, w):
        self.w = w
        self.table = {}
        self.k = 0

    def lit(self, value):
        """literal for a value: symbolic world -> unique token mapped to the symbol; concrete -> repr"""
        if not self.w.symbolic:
            return repr(float(value))
        if not isinstance(value, self.w.S.Sym):
            return str(value) if not isinstance(value, F) else repr(float(value)) if False else self._tok(value)
        return self._tok(value)

    def _tok(self, value):
        self.k += 1
        s = '%d.%06d' % (700 + self.k, self.k)
        self.table[s] = value
        return s


def _rot(w, axis, a):
    c, s = w.cos(a), w.sin(a)
    if axis == 0:
        return w.array([[1, 0, 0], [0, c, -s], [0, s, c]])
    if axis == 1:
        return w.array([[c, 0, s], [0, 1, 0], [-s, 0, c]])
    return w.array([[c, -s, 0], [s, c, 0], [0, 0, 1]])


def build(w, spec):
    """spec: list of joints dict(kind, origin, xyz, rpy, axis) ; returns (xml text, oracle pieces)"""
    g = Gen(w)
    eps = w.const('1e-6')
    lines = ['<?xml version="1.0"?>', '<robot name="gen">']
    nlinks = len(spec['joints']) + 1
    names = ['L%d' % i for i in range(nlinks)]
    if spec.get('world'):
        names[0] = 'world'
    for i, nm in enumerate(names):
        if spec.get('inertial') and not (i == 0 and spec.get('world')):
            lines.append('<link name="%s"><inertial><origin xyz="0.1 0.0 0.05" rpy="0 0 0"/><mass value="%s"/>'
                         '<inertia ixx="0.1" ixy="0" ixz="0" iyy="0.1" iyz="0" izz="0.1"/></inertial></link>' % (nm, 1 + i))
        else:
            lines.append('<link name="%s"/>' % nm)
    pieces = []
    mv = 0
    for j, jd in enumerate(spec['joints']):
        kind = jd['kind']
        xyz = rpy = axis = None
        attrs = ''
        if jd.get('origin', True):
            parts = []
            if jd.get('xyz', True):
                xyz = w.reals('j%d_p' % j, 3, -2, 2)
                parts.append('xyz="%s"' % ' '.join(g.lit(v) for v in xyz))
            if jd.get('rpy', True):
                lim = w.pi - w.const('1e-2')
                rpy = []
                for k in range(3):
                    a = w.angle('j%d_r%d' % (j, k), -lim, lim)
                    if w.symbolic:
                        w.assume(H.OR(a >= eps, a <= -eps))
                    rpy.append(a)
                parts.append('rpy="%s"' % ' '.join(g.lit(v) for v in rpy))
            attrs += '<origin %s/>' % ' '.join(parts)
        lim_txt = ''
        lo = hi = None
        if kind != 'fixed':
            if jd.get('axis', True):
                if jd.get('axis') == 'z':
                    axis = [0, 0, 1]
                    attrs += '<axis xyz="0 0 1"/>'
                else:
                    axis = w.unit3('j%d_a' % j)
                    attrs += '<axis xyz="%s"/>' % ' '.join(g.lit(v) for v in axis)
            if kind == 'revolute':
                lo, hi = F(-3, 2) - F(mv, 10), F(5, 4) + F(mv, 10)
                attrs += '<limit lower="%s" upper="%s" effort="10" velocity="2"/>' % (float(lo), float(hi))
            mv += 1
        lines.append('<joint name="J%d" type="%s"><parent link="%s"/><child link="%s"/>%s</joint>' % (j, kind, names[j], names[j + 1], attrs))
        pieces.append(dict(kind=kind, xyz=xyz, rpy=rpy, axis=axis, lo=lo, hi=hi, name='J%d' % j))
    lines.append('</robot>')
    return '\n'.join(lines), pieces, g.table


def oracle_fk(w, pieces, thetas):
    T = H.eye(w, 4)
    k = 0
    for p in pieces:
        xyz = p['xyz'] if p['xyz'] is not None else [0, 0, 0]
        R = H.eye(w, 3)
        if p['rpy'] is not None:
            r, pt, y = p['rpy']
            R = _rot(w, 2, y) @ _rot(w, 1, pt) @ _rot(w, 0, r)
        T = T @ H.T_of(w, R, xyz)
        if p['kind'] != 'fixed':
            ax = p['axis'] if p['axis'] is not None else [1, 0, 0]
            T = T @ H.T_of(w, H.rodrigues(w, ax, thetas[k]), [0, 0, 0])
            k += 1
    return T


def h_generated(w):
    spec = w.params['spec']
    if w.symbolic:
        from .. import summary as SM, symnp
        SM.install(w.env)
    text, pieces, table = build(w, spec)
    km = w.lib('kinematics.arm_model')
    d = tempfile.mkdtemp(prefix='vt_c13_')
    path = os.path.join(d, 'gen.urdf')
    try:
        open(path, 'w').write(text)
        if w.symbolic:
            from .. import symnp, sym as S

            def hook(s):
                s = s.strip()
                if s in table:
                    return table[s]
                return S.to_frac(F(s)) if True else None
            symnp.STRING_TO_NUMBER[0] = hook
        try:
            arm = km.loadArmFromURDF(path)
        finally:
            if w.symbolic:
                symnp.STRING_TO_NUMBER[0] = None
    finally:
        try:
            os.remove(path)
            os.rmdir(d)
        except OSError:
            pass
    moving = [p for p in pieces if p['kind'] != 'fixed']
    n = len(moving)
    w.witness()
    w.prove(arm is not None, 'the file loads')
    w.prove(arm.num_dof == n, 'degrees of freedom = number of moving joints (%d)' % n, 'got %r' % (getattr(arm, 'num_dof', None),))
    w.prove(list(arm.joint_names) == [p['name'] for p in moving], 'joint order and names as in the file')
    for i, p in enumerate(moving):
        if p['lo'] is not None:
            w.prove_close(arm.joint_mins[i], w.const(p['lo']) if w.symbolic else float(p['lo']), TOL, 'lower limit of joint %d' % i)
            w.prove_close(arm.joint_maxs[i], w.const(p['hi']) if w.symbolic else float(p['hi']), TOL, 'upper limit of joint %d' % i)
    th = []
    for i, p in enumerate(moving):
        lo, hi = (p['lo'], p['hi']) if p['lo'] is not None else (F(-3), F(3))
        t = w.angle('t%d' % i, lo, hi)
        if w.symbolic:
            eps = w.const('1e-6')
            w.assume(H.OR(t >= eps, t <= -eps))
        elif abs(t) < 1e-6:
            from ..world import HarnessReject
            raise HarnessReject('window')
        th.append(t)
    T = arm.FK(w.array(th)).gTM()
    w.prove_close(T, oracle_fk(w, pieces, th), TOL, 'FK of the loaded arm = the file\'s own semantics (origins, rpy, axes, fixed joints folded)')
    T0 = arm.FK(w.array([0] * n) if not w.symbolic else w.np.zeros(n)).gTM()
    w.prove_close(T0, oracle_fk(w, pieces, [0] * n), TOL, 'home pose of the loaded arm')


def _xml_oracle(path):
    """independent reading of a URDF file (concrete): ordered chain of (kind, xyz, rpy, axis, limits, name)"""
    import xml.etree.ElementTree as ET
    root = ET.parse(path).getroot()
    joints = {}
    children = set()
    for j in root.findall('joint'):
        par, ch = j.find('parent').get('link'), j.find('child').get('link')
        o = j.find('origin')
        xyz = [float(v) for v in (o.get('xyz') or '0 0 0').split()] if o is not None else [0.0, 0.0, 0.0]
        rpy = [float(v) for v in (o.get('rpy') or '0 0 0').split()] if o is not None else [0.0, 0.0, 0.0]
        a = j.find('axis')
        axis = [float(v) for v in a.get('xyz').split()] if a is not None else [1.0, 0.0, 0.0]
        lim = j.find('limit')
        joints.setdefault(par, []).append(dict(kind=j.get('type'), xyz=xyz, rpy=rpy, axis=axis, child=ch, name=j.get('name'),
                                               lo=float(lim.get('lower')) if lim is not None and lim.get('lower') else None,
                                               hi=float(lim.get('upper')) if lim is not None and lim.get('upper') else None))
        children.add(ch)
    roots = [l.get('name') for l in root.findall('link') if l.get('name') not in children]
    chain = []
    cur = roots[0]
    while cur in joints:
        # follow the longest branch (serial files: the only one)
        def depth(link):
            return 1 + max([depth(x['child']) for x in joints.get(link, [])] or [0])
        js = max(joints[cur], key=lambda x: depth(x['child']))
        chain.append(js)
        cur = js['child']
    return chain


def h_bundled(w):
    """the URDF files shipped with the tests: loaded arm vs an independent reading of the XML, concrete joint samples"""
    import numpy as np
    path = os.path.join(os.environ.get('VERIF_REPO', '/repo'), 'tests', 'test_helpers', w.params['file'])
    km = w.lib('kinematics.arm_model')
    arm = km.loadArmFromURDF(path)
    chain = _xml_oracle(path)
    moving = [c for c in chain if c['kind'] != 'fixed']
    w.prove(arm.num_dof == len(moving), 'degrees of freedom')
    w.prove(list(arm.joint_names) == [c['name'] for c in moving], 'joint names / order')
    th = []
    for i, c in enumerate(moving):
        lo = c['lo'] if c['lo'] is not None else -3.0
        hi = c['hi'] if c['hi'] is not None else 3.0
        if c['lo'] is not None:
            w.prove_close(float(arm.joint_mins[i]), c['lo'], 1e-9, 'lower limit %d' % i)
            w.prove_close(float(arm.joint_maxs[i]), c['hi'], 1e-9, 'upper limit %d' % i)
        th.append(w.real('t%d' % i, max(lo, -6.2) + 1e-3, min(hi, 6.2) - 1e-3))
    pieces = [dict(kind=c['kind'], xyz=c['xyz'], rpy=c['rpy'], axis=list(np.array(c['axis']) / np.linalg.norm(c['axis'])) if c['kind'] != 'fixed' else None) for c in chain]
    T = arm.FK(np.array(th)).gTM()
    w.prove_close(T, oracle_fk(w, pieces, th), 1e-6, 'FK of the loaded arm = the file\'s own semantics')


def cases(tier, seed):
    full = dict(kind='revolute')
    fixed = dict(kind='fixed')
    specs = {
        '1R': dict(joints=[full]),
        '1R_cont': dict(joints=[dict(kind='continuous')]),
        '2R': dict(joints=[full, dict(kind='revolute', axis='z')]),
        'fixed_before': dict(joints=[fixed, full]),
        'fixed_after': dict(joints=[full, fixed]),
        'fixed_between': dict(joints=[dict(kind='revolute', axis='z', rpy=False), fixed, dict(kind='revolute', axis='z', xyz=False)]),
        'world_link': dict(world=True, joints=[fixed, full]),
        'world_direct': dict(world=True, joints=[full]),
        'inertial': dict(inertial=True, joints=[full, fixed]),
        'no_origin': dict(joints=[dict(kind='revolute', origin=False)]),
        'no_xyz': dict(joints=[dict(kind='revolute', xyz=False)]),
        'no_rpy': dict(joints=[dict(kind='revolute', rpy=False)]),
        'no_axis': dict(joints=[dict(kind='revolute', axis=False)]),
        'fixed_no_origin': dict(joints=[full, dict(kind='fixed', origin=False)]),
        '3R_mixed': dict(joints=[dict(kind='revolute', axis='z', rpy=False), dict(kind='continuous', axis='z', xyz=False), fixed,
                                 dict(kind='revolute', rpy=False)]),
    }
    # runs of consecutive fixed joints (each must be folded into the running pose, not into a cached one)
    specs['two_fixed_after'] = dict(joints=[dict(kind='revolute', axis='z', rpy=False), fixed, dict(kind='fixed', rpy=False)])
    specs['two_fixed_before'] = dict(joints=[fixed, dict(kind='fixed', rpy=False), dict(kind='revolute', axis='z', rpy=False)])
    specs['two_fixed_between'] = dict(joints=[dict(kind='revolute', axis='z', rpy=False), dict(kind='fixed', rpy=False), fixed,
                                              dict(kind='revolute', axis='z', rpy=False, xyz=False)])
    if tier == 'thorough':
        specs['4R'] = dict(joints=[dict(kind='revolute', axis='z', rpy=False)] * 2 + [fixed] + [dict(kind='revolute', axis='z', rpy=False)] * 2)
        specs['three_fixed_between'] = dict(joints=[dict(kind='revolute', axis='z'), fixed, dict(kind='fixed', rpy=False), fixed, dict(kind='revolute', axis='z', rpy=False)])
    cs = [Case('gen_' + k, h_generated, params=dict(spec=v)) for k, v in specs.items()]
    for f in ('ur5.urdf', 'puma_560.urdf', 'irb_2400.urdf'):
        cs.append(Case('bundled_' + f.split('.')[0], h_bundled, params=dict(file=f), concrete_only=True, concrete_samples=5))
    return cs
