"""C14 - value semantics: operators and queries neither mutate nor alias their operands (DESIGN 5, C14)."""
from ..run import Case
from .. import hlib as H
from .. import arms as A

PROPERTY = 'C14'
LEVEL = 'model_checking'
ENCODED = ['tm: operators + - * / // @ abs, right-hand forms, inv, copy, T, tm(tm), gTM, gTAA, gRot, gPos, getQuat', 'Screw / Wrench: operators, '
           'copy, getData, flatten, reshape, getForce, getMoment, cross, dot, abs, changeFrame on a copy', 'basic_helpers.localToGlobal/globalToLocal',
           'fsr.distance, arcDistance, tmAvgMidpoint, tmInterpMidpoint, adjustRotationToMidpoint, closeLinearGap, closeArcGap, IKPath, poseError, '
           'geometricError, lookAt, mirror, makeWrench, transformWrenchFrame (on a copy)', 'default constructors tm(), Screw(), Wrench()',
           'Arm constructor / FK / move / jacobian with caller arrays', 'ported MR functions with caller arrays']
BOUNDS = {
    'quick': 'every operation in scope applied to operands with SYMBOLIC numeric payload (arbitrary poses / six-vectors / scalars); after the '
             'call (i) every array reachable from an operand has the same identity, shape and elements, (ii) no array exposed by the result '
             'shares memory with an operand array (np.shares_memory on the real object arrays: views and aliases behave as in production), '
             '(iii) default-constructed instances after arbitrary mutation of earlier ones are identity / zero; per feasible path',
    'thorough': 'same',
}
OUTSIDE = ['the property\'s own exclusions: index/slice access, frame/position metadata objects of screws and wrenches, the Screw->Wrench '
           'conversion constructor, changeFrame on its receiver, rotationFromVector, AngleMod, joint clamping in FK',
           'byte-level fingerprints are replaced by element-wise identity of the exact symbolic payload']
ASSUMPTIONS = ['summary mode for Exp/Log of composed rotations (C01 contracts)']
EXPLORER_DEFAULTS = {'quick': dict(prove_timeout_ms=20000, time_budget_s=600, max_paths=200, max_decisions=120),
                     'thorough': dict(prove_timeout_ms=60000, time_budget_s=1200, max_paths=1000, max_decisions=200)}


def _libs(w):
    if w.symbolic:
        from .. import summary as SM
        SM.install(w.env)
        from .. import stubs
        stubs.install_quat_hook()
    g = w.lib('general')
    return g


def arrays_of(w, obj, meta=False):
    """ndarrays reachable from an operand (numeric payload only)"""
    np = w.np
    out = []
    if isinstance(obj, np.ndarray):
        out.append(('array', obj))
    elif hasattr(obj, 'TM') and hasattr(obj, 'TAA'):
        out += [('TM', obj.TM), ('TAA', obj.TAA)]
    elif hasattr(obj, 'data') and hasattr(obj, 'frame_applied'):
        out.append(('data', obj.data))
    elif isinstance(obj, (list, tuple)):
        for i, o in enumerate(obj):
            out += [('%d.%s' % (i, n), a) for n, a in arrays_of(w, o)]
    return out


def fingerprint(w, obj):
    fp = []
    for name, a in arrays_of(w, obj):
        if w.symbolic:
            S = w.S
            elems = tuple((S.pkey(S.Sym.lift(x).n), S.Sym.lift(x).f) if isinstance(x, (S.Sym, int, float)) or hasattr(x, 'numerator') else repr(x)
                          for x in a.reshape(-1))
        else:
            elems = a.tobytes()
        fp.append((name, id(a), tuple(a.shape), elems))
    return fp


def check(w, label, operands, fn, result_arrays=True):
    """run fn(); operands untouched; the result exposes no storage of an operand"""
    np = w.np
    before = [fingerprint(w, o) for o in operands]
    res = fn()
    after = [fingerprint(w, o) for o in operands]
    w.prove(before == after, label + ': operands not modified')
    if result_arrays and res is not None:
        ok = True
        why = ''
        for rn, ra in arrays_of(w, res):
            for k, o in enumerate(operands):
                for on, oa in arrays_of(w, o):
                    if ra is oa or np.shares_memory(ra, oa):
                        ok = False
                        why = 'result.%s shares storage with operand %d.%s' % (rn, k, on)
        w.prove(ok, label + ': result shares no storage with an operand', why)
    return res


def _pose(w, tm, name):
    th = w.angle(name + 'th', w.const('1e-6'), w.pi - w.const('1e-3'))
    u = w.unit3(name + 'u')
    p = w.reals(name + 'p', 3, -10, 10)
    return tm([p[0], p[1], p[2], th * u[0], th * u[1], th * u[2]])


def h_tm(w):
    g = _libs(w)
    tm, bh = g.tm, w.lib('general.basic_helpers')
    a, b = _pose(w, tm, 'A'), _pose(w, tm, 'B')
    k = w.real('k', w.const('0.5'), 3)
    v6 = w.array(w.reals('v', 6, -2, 2))
    M4 = b.gTM()
    w.witness()
    ops = {
        'a + b': ([a, b], lambda: a + b), 'a - b': ([a, b], lambda: a - b), 'a @ b': ([a, b], lambda: a @ b), 'a * b': ([a, b], lambda: a * b),
        'a + k': ([a], lambda: a + k), 'a - k': ([a], lambda: a - k), 'a * k': ([a], lambda: a * k), 'k * a': ([a], lambda: k * a),
        'a / k': ([a], lambda: a / k), 'abs(a)': ([a], lambda: abs(a)),
        'a + array6': ([a, v6], lambda: a + v6), 'a - array6': ([a, v6], lambda: a - v6), 'a @ matrix': ([a, M4], lambda: a @ M4),
        'a.inv()': ([a], lambda: a.inv()), 'a.copy()': ([a], lambda: a.copy()), 'tm(a)': ([a], lambda: tm(a)), 'a.T()': ([a], lambda: a.T()),
        'a.gTM()': ([a], lambda: a.gTM()), 'a.gTAA()': ([a], lambda: a.gTAA()), 'a.gRot()': ([a], lambda: a.gRot()), 'a.gPos()': ([a], lambda: a.gPos()),
        'a.getQuat()': ([a], lambda: a.getQuat()), 'a.adjoint()': ([a], lambda: a.adjoint()), 'a.approx()': ([a], lambda: a.approx()) if not w.symbolic else ([a], lambda: None),
        'tm(matrix)': ([M4], lambda: tm(M4)), 'tm(array6)': ([v6], lambda: tm(v6)),
        'localToGlobal(a, b)': ([a, b], lambda: bh.localToGlobal(a, b)), 'globalToLocal(a, b)': ([a, b], lambda: bh.globalToLocal(a, b)),
    }
    labels = sorted(ops)
    grp, ngrp = w.params.get('group', 0), w.params.get('ngroups', 1)
    for label in labels[grp::ngrp]:
        operands, fn = ops[label]
        check(w, label, operands, fn)
    if grp != 0:
        return
    # mutating a copy never reaches the source
    for label, mk in (('copy()', lambda: a.copy()), ('tm(a)', lambda: tm(a)), ('a @ identity', lambda: a @ tm())):
        before = fingerprint(w, a)
        c = mk()
        c[0] = k
        c.TM[1, 2] = k
        c.TAA[4, 0] = k
        c.setQuat(w.array([0, 0, 0, 1]))
        w.prove(fingerprint(w, a) == before, 'mutating %s leaves the source untouched' % label)


def h_screw(w):
    g = _libs(w)
    tm, Screw, Wrench, fsr = g.tm, g.Screw, g.Wrench, g.fsr
    kind = w.params['kind']
    A_, B_ = _pose(w, tm, 'A'), _pose(w, tm, 'B')
    w.assume(H.NOT(A_ == B_))
    xa = w.array(w.reals('x', 6, -5, 5)).reshape((6, 1))
    ya = w.array(w.reals('y', 6, -5, 5)).reshape((6, 1))
    k = w.real('k', w.const('0.5'), 3)
    mk = (lambda d, f: Wrench(d, None, f)) if kind == 'wrench' else (lambda d, f: Screw(d, f))
    x, y, z = mk(xa.copy(), A_.copy()), mk(ya.copy(), B_.copy()), mk(ya.copy(), A_.copy())
    v6 = w.array(w.reals('v', 6, -2, 2))
    w.witness()
    ops = {
        'x + y (frames differ)': ([x, y], lambda: x + y), 'x - y (frames differ)': ([x, y], lambda: x - y), 'x @ y (frames differ)': ([x, y], lambda: x @ y),
        'x * y (frames differ)': ([x, y], lambda: x * y), 'x + z (same frame)': ([x, z], lambda: x + z), 'x - z (same frame)': ([x, z], lambda: x - z),
        'x @ z (same frame)': ([x, z], lambda: x @ z), 'x * z (same frame)': ([x, z], lambda: x * z),
        'x * k': ([x], lambda: x * k), 'k * x': ([x], lambda: k * x), 'x / k': ([x], lambda: x / k), 'x + k': ([x], lambda: x + k), 'x - k': ([x], lambda: x - k),
        'k - x': ([x], lambda: k - x), 'k + x': ([x], lambda: k + x), 'x + array6': ([x, v6], lambda: x + v6), 'x - array6': ([x, v6], lambda: x - v6),
        'array6 - x': ([x, v6], lambda: v6 - x), 'abs(x)': ([x], lambda: abs(x)), 'x.copy()': ([x], lambda: x.copy()), 'x.getData()': ([x], lambda: x.getData()),
        'x.flatten()': ([x], lambda: x.flatten()), 'x.reshape': ([x], lambda: x.reshape((1, 6))), 'x.cross(y)': ([x, y], lambda: x.cross(y)),
        'x.dot(y)': ([x, y], lambda: x.dot(y)), 'x.copy().changeFrame(B)': ([x, B_], lambda: x.copy().changeFrame(B_)),
        'x.dualScalarMultiply': ([x], lambda: x.dualScalarMultiply([k, 2])),
    }
    if kind == 'wrench':
        ops['x.getForce()'] = ([x], lambda: x.getForce())
        ops['x.getMoment()'] = ([x], lambda: x.getMoment())
        ops['transformWrenchFrame(copy)'] = ([x, A_, B_], lambda: fsr.transformWrenchFrame(x.copy(), A_, B_))
    for label in sorted(ops):
        operands, fn = ops[label]
        check(w, kind + ' ' + label, operands, fn)
    before = fingerprint(w, x)
    c = x.copy()
    c[0] = k
    c.data[3, 0] = k
    w.prove(fingerprint(w, x) == before, kind + ': mutating a copy leaves the source untouched')
    d = x.getData()
    d[2, 0] = k
    w.prove(fingerprint(w, x) == before, kind + ': mutating getData() leaves the source untouched')


def h_helpers(w):
    g = _libs(w)
    tm, fsr = g.tm, g.fsr
    a, b, c = _pose(w, tm, 'A'), _pose(w, tm, 'B'), _pose(w, tm, 'C')
    delta = w.real('delta', w.const('0.01'), 1)
    f3 = w.array(w.reals('f', 3, -5, 5))
    w.witness()
    ops = {
        'distance': ([a, b], lambda: fsr.distance(a, b)), 'arcDistance': ([a, b], lambda: fsr.arcDistance(a, b)),
        'tmAvgMidpoint': ([a, b], lambda: fsr.tmAvgMidpoint(a, b)), 'tmInterpMidpoint': ([a, b], lambda: fsr.tmInterpMidpoint(a, b)),
        'adjustRotationToMidpoint': ([c, a, b], lambda: fsr.adjustRotationToMidpoint(c, a, b)),
        'closeLinearGap': ([a, b], lambda: fsr.closeLinearGap(a, b, delta)), 'closeArcGap': ([a, b], lambda: fsr.closeArcGap(a, b, delta)),
        'IKPath': ([a, b], lambda: fsr.IKPath(a, b, 3)), 'poseError': ([a, b], lambda: fsr.poseError(a, b)),
        'geometricError': ([a, b], lambda: fsr.geometricError(a, b)), 'mirror': ([a, b], lambda: fsr.mirror(a, b)),
        'makeWrench': ([a, f3], lambda: fsr.makeWrench(a, 2, f3)), 'twistToGoal': ([a, b], lambda: fsr.twistToGoal(a, b)),
        'twistFromTransform': ([a], lambda: fsr.twistFromTransform(a)), 'planeFromThreePoints': ([a, b, c], lambda: fsr.planeFromThreePoints(a, b, c)),
        'transformByVector': ([a, f3], lambda: fsr.transformByVector(a, f3)), 'getUnitVec': ([a, b], lambda: fsr.getUnitVec(a, b)),
    }
    labels = sorted(ops)
    grp, ngrp = w.params.get('group', 0), w.params.get('ngroups', 1)
    for label in labels[grp::ngrp]:
        operands, fn = ops[label]
        # helpers: operands unmodified is the claim; storage clause only for what they return as fresh values
        check(w, 'fsr.' + label, operands, fn, result_arrays=label not in ('IKPath', 'closeLinearGap', 'closeArcGap'))
    if grp != 0:
        return
    # lookAt only when the target is not vertically aligned
    dxy = (b[0] - a[0]) * (b[0] - a[0]) + (b[1] - a[1]) * (b[1] - a[1])
    w.assume(dxy >= w.const('1e-4'))
    check(w, 'fsr.lookAt', [a, b], lambda: fsr.lookAt(a, b))


def h_defaults(w):
    """a freshly default-constructed transform / screw / wrench is identity / zero whatever happened to earlier ones"""
    g = _libs(w)
    tm, Screw, Wrench, fsr = g.tm, g.Screw, g.Wrench, g.fsr
    k = w.real('k', 1, 5)
    w.witness()
    t = tm()
    t[0] = k
    t.TM[0, 3] = k
    t.TAA[4, 0] = k
    t.setQuat(w.array([0, 1, 0, 0]))
    w.prove_close(tm().gTM(), H.eye(w, 4), 0, 'tm() is the identity after mutating an earlier tm()')
    w.prove_close(tm().gTAA(), w.np.zeros((6, 1)), 0, 'tm() has a zero six-vector after mutating an earlier tm()')
    s = Screw()
    s[0] = k
    s.data[3, 0] = k
    w.prove_close(Screw().getData(), w.np.zeros((6, 1)), 0, 'Screw() is zero after mutating an earlier Screw()')
    wr = Wrench()
    wr[1] = k
    wr.data[4, 0] = k
    w.prove_close(Wrench().getData(), w.np.zeros((6, 1)), 0, 'Wrench() is zero after mutating an earlier Wrench()')
    m1 = fsr.makeWrench(tm(), 1, w.array([0, 0, 1]))
    m1[0] = k
    m2 = fsr.makeWrench(tm(), 1, w.array([0, 0, 1]))
    w.prove_close(m2.getData(), w.array([0, 0, 0, 0, 0, 1]).reshape((6, 1)), 0, 'makeWrench is not affected by mutating an earlier result')


def h_constructors(w):
    """arrays handed to the Arm constructor and its kinematic queries are left unaltered"""
    name, base = w.params['arm'], w.params['base']
    if w.symbolic:
        from .. import summary as SM
        SM.install(w.env)
    spec = A.SPECS[name]
    km = w.lib('kinematics.arm_model')
    tm = w.lib('general').tm
    n = len(spec['axes'])
    S_ = w.array(A.screw_columns(w, spec)).T
    Bm = A.base_matrix(w, base)
    Mm = w.array([[1, 0, 0, A._c(w, spec['ee'][0])], [0, 1, 0, A._c(w, spec['ee'][1])], [0, 0, 1, A._c(w, spec['ee'][2])], [0, 0, 0, 1]])
    homes = w.array([[A._c(w, q[i]) for q in spec['points']] for i in range(3)])
    axes = w.array([[A._c(w, a[i]) for a in spec['axes']] for i in range(3)])
    Bt, Mt = tm(Bm.copy()), tm(Mm.copy())
    operands = [S_, homes, axes, Bt, Mt]
    w.witness()
    arm = check(w, 'Arm(...)', operands, lambda: km.Arm(Bt, S_, Mt, homes, axes), result_arrays=False)
    th = A.sym_thetas(w, n, 't', -w.pi, w.pi)
    tha = w.array(th)
    check(w, 'Arm.FK (joints within limits)', operands + [tha], lambda: arm.FK(tha), result_arrays=False)
    check(w, 'Arm.jacobian', operands + [tha], lambda: arm.jacobian(tha))
    check(w, 'Arm.jacobianBody', operands + [tha], lambda: arm.jacobianBody(tha))
    B2 = tm(A.base_matrix(w, 'B2'))
    check(w, 'Arm.move', operands + [B2], lambda: arm.move(B2), result_arrays=False)
    check(w, 'Arm.getScrewList', operands, lambda: arm.getScrewList())
    sl = arm.getScrewList()
    sl[0, 0] = 7
    w.prove_close(arm.getScrewList()[0, 0], arm.screw_list[0, 0], 0, 'mutating getScrewList() does not reach the arm')
    check(w, 'Arm.getEEPos', operands, lambda: arm.getEEPos())
    e = arm.getEEPos()
    before = fingerprint(w, arm._end_effector_pos_global)
    e[0] = 7
    w.prove(fingerprint(w, arm._end_effector_pos_global) == before, 'mutating getEEPos() does not reach the arm')


def h_mr(w):
    """ported MR functions leave their argument arrays unaltered"""
    if w.symbolic:
        pass
    mr = w.lib('modern_robotics_numba.modern_high_performance')
    from . import c02_port_vs_reference as C2
    A_ = w.array
    th = C2._thetas(w, 3)
    M, S_ = C2._book_fk(w, True)
    T, R, p, q = H.pose(w, 'T', 10)
    V = A_(w.reals('V', 6, -5, 5))
    Mlist, Glist, Slist = C2._book_dyn(w, 2)
    dth, ddth, g, Ft = A_(w.reals('d', 2, -2, 2)), A_(w.reals('dd', 2, -2, 2)), A_(w.reals('g', 3, -10, 10)), A_(w.reals('F', 6, -5, 5))
    tha, th2 = A_(th), A_(th[:2])
    w.witness()
    ops = {
        'FKinSpace': ([M, S_, tha], lambda: mr.FKinSpace(M, S_, tha)), 'FKinBody': ([M, S_, tha], lambda: mr.FKinBody(M, S_, tha)),
        'JacobianSpace': ([S_, tha], lambda: mr.JacobianSpace(S_, tha)), 'JacobianBody': ([S_, tha], lambda: mr.JacobianBody(S_, tha)),
        'TransInv': ([T], lambda: mr.TransInv(T)), 'Adjoint': ([T], lambda: mr.Adjoint(T)), 'TransToRp': ([T], lambda: mr.TransToRp(T)),
        'RpToTrans': ([R, A_(p)], lambda: mr.RpToTrans(R, A_(p))), 'VecTose3': ([V], lambda: mr.VecTose3(V)), 'ad': ([V], lambda: mr.ad(V)),
        'MatrixExp6': ([V], lambda: mr.MatrixExp6(mr.VecTose3(V))), 'RotInv': ([R], lambda: mr.RotInv(R)), 'Normalize': ([V[0:3]], lambda: mr.Normalize(V[0:3])),
        'LocalToGlobal': ([V], lambda: mr.LocalToGlobal(V, V)), 'InverseDynamics': ([th2, dth, ddth, g, Ft, Mlist, Glist, Slist],
                                                                                    lambda: mr.InverseDynamics(th2, dth, ddth, g, Ft, Mlist, Glist, Slist)),
        'MassMatrix': ([th2, Mlist, Glist, Slist], lambda: mr.MassMatrix(th2, Mlist, Glist, Slist)),
        'EulerStep': ([th2, dth, ddth], lambda: mr.EulerStep(th2, dth, ddth, w.const('0.1'))),
        'JointTrajectory': ([th2, dth], lambda: mr.JointTrajectory(th2, dth, 2, 3, 3)),
    }
    for label in sorted(ops):
        operands, fn = ops[label]
        check(w, 'mr.' + label, operands, fn, result_arrays=label not in ('RotInv',))


def cases(tier, seed):
    cs = [Case('screw_ops', h_screw, params=dict(kind='screw')), Case('wrench_ops', h_screw, params=dict(kind='wrench')),
          Case('defaults', h_defaults), Case('mr_functions', h_mr)]
    for g_ in range(7):
        cs.append(Case('tm_ops_%d' % g_, h_tm, params=dict(group=g_, ngroups=7)))
    for g_ in range(6):
        cs.append(Case('helpers_%d' % g_, h_helpers, params=dict(group=g_, ngroups=6)))
    for arm, base in (('2R', 'I'), ('2R', 'B1'), ('3R', 'B2')):
        cs.append(Case('arm_constructor_%s_%s' % (arm, base), h_constructors, params=dict(arm=arm, base=base)))
    return cs
