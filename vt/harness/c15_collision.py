"""C15 - planner collision test = exact segment-versus-closed-box intersection (DESIGN 5, C15)."""
import itertools
from ..run import Case
from .. import hlib as H

PROPERTY = 'C15'
LEVEL = 'model_checking'
ENCODED = ['path_planning.pathplanner.RRTStar.obstruction', 'RRTStar.addObstruction', 'RRTStar.__init__',
           'PathNode.getPosition', 'general.faser_transform.tm.__init__/from6DOF/TAAtoTM/__getitem__']
BOUNDS = {
    'quick': 'all real segments and boxes with coordinates in [-10, 10] (strictly more than the integer lattice '
             'of the property); k = 1 box with corners in natural and in fully swapped order (exactness), k = 2 boxes (answer = disjunction of single-box answers, order-independent); every '
             'feasible path of the separating-axis code',
    'thorough': 'k = 1 box with all 8 per-axis corner orders, k = 2 and k = 3 boxes, plus degenerate families '
                '(zero-length segment, axis-parallel segment, flat box)',
}
OUTSIDE = ['coordinates beyond [-10, 10]', 'more than 3 boxes (the loop body is the same per box)',
           'floating-point rounding at exact contact']
ASSUMPTIONS = ['oracle: Fourier-Motzkin elimination of t from {lo <= p + t d <= hi, 0 <= t <= 1} (exact, closed box)',
               'rtree index replaced by an in-memory double (not used by obstruction)']
EXPLORER_DEFAULTS = {'quick': dict(prove_timeout_ms=30000, time_budget_s=600, max_paths=400),
                     'thorough': dict(prove_timeout_ms=120000, time_budget_s=1200, max_paths=4000)}


def seg_box_oracle(p, q, lo, hi):
    """exists t in [0,1]: lo <= p + t (q-p) <= hi (componentwise), t eliminated exactly.
    constraints a*t <= b"""
    cons = [(1, 1), (-1, 0)]          # t <= 1 ; -t <= 0
    for i in range(3):
        d = q[i] - p[i]
        cons.append((d, hi[i] - p[i]))        # p + t d <= hi
        cons.append((-d, p[i] - lo[i]))       # -(p + t d) <= -lo
    parts = []
    for a, b in cons:
        if isinstance(a, int):
            continue
        parts.append(H.IMPLIES(a == 0, b >= 0))
    for (ak, bk), (aj, bj) in itertools.permutations(cons, 2):
        # ak < 0 gives t >= bk/ak ; aj > 0 gives t <= bj/aj ; need bk/ak <= bj/aj  <=>  bk*aj >= bj*ak
        if isinstance(ak, int) and ak > 0:
            continue
        if isinstance(aj, int) and aj < 0:
            continue
        pre = []
        if not isinstance(ak, int):
            pre.append(ak < 0)
        if not isinstance(aj, int):
            pre.append(aj > 0)
        if not pre:
            continue
        parts.append(H.IMPLIES(H.AND(*pre), bk * aj >= bj * ak))
    return H.AND(*parts)


def _setup(w, k, swaps, family=None):
    pp = w.lib('path_planning.pathplanner')
    tm = w.lib('general.faser_transform').tm
    p = w.reals('p', 3, -10, 10)
    q = w.reals('q', 3, -10, 10)
    if family == 'point':
        q = list(p)
    elif family == 'axis_parallel':
        q = [q[0], p[1], p[2]]
    planner = pp.RRTStar(tm())
    boxes = []
    for b in range(k):
        L = w.reals('L%d_' % b, 3, -10, 10)
        R = w.reals('R%d_' % b, 3, -10, 10)
        if family == 'flat_box':
            R = [R[0], R[1], L[2]]
        lo, hi = [], []
        for i in range(3):
            if swaps[b][i]:
                w.assume(L[i] >= R[i])
                lo.append(R[i]); hi.append(L[i])
            else:
                w.assume(L[i] <= R[i])
                lo.append(L[i]); hi.append(R[i])
        planner.addObstruction(L, R)
        boxes.append((lo, hi))
    n1 = pp.PathNode(tm([p[0], p[1], p[2], 0, 0, 0]))
    n2 = pp.PathNode(tm([q[0], q[1], q[2], 0, 0, 0]))
    return planner, n1, n2, p, q, boxes


def h_obstruction(w):
    k = w.params['k']
    swaps = w.params['swaps']
    planner, n1, n2, p, q, boxes = _setup(w, k, swaps, w.params.get('family'))
    res = planner.obstruction(n1, n2)
    w.witness()
    w.prove(res is True or res is False or isinstance(res, (bool, w.np.bool_)), 'returns a bool')
    oracle = H.OR(*[seg_box_oracle(p, q, lo, hi) for lo, hi in boxes])
    if res:
        w.prove(oracle, 'obstructed => segment meets some closed box')
    else:
        w.prove(H.NOT(oracle), 'not obstructed => segment misses every closed box')


def h_compositional(w):
    """k boxes: the answer is the disjunction of the single-box answers (each single-box answer is
    proved exact by the k = 1 cases); keeps every solver query about one box"""
    k = w.params['k']
    swaps = w.params['swaps']
    pp = w.lib('path_planning.pathplanner')
    tm = w.lib('general.faser_transform').tm
    planner, n1, n2, p, q, boxes = _setup(w, k, swaps)
    res = planner.obstruction(n1, n2)
    singles = []
    for b in range(k):
        pl = pp.RRTStar(tm())
        pl.obstructions = [planner.obstructions[b]]
        singles.append(bool(pl.obstruction(n1, n2)))
    w.witness()
    w.prove(bool(res) == any(singles), 'k boxes: obstructed iff obstructed by some single box')
    # order independence
    pl = pp.RRTStar(tm())
    pl.obstructions = list(reversed(planner.obstructions))
    w.prove(bool(pl.obstruction(n1, n2)) == bool(res), 'box order does not matter')


def h_no_boxes(w):
    planner, n1, n2, p, q, boxes = _setup(w, 0, [])
    w.prove(not planner.obstruction(n1, n2), 'no boxes => never obstructed')


def cases(tier, seed):
    N, Y = (False, False, False), (True, True, True)
    cs = [Case('no_boxes', h_no_boxes),
          Case('k1_natural', h_obstruction, params=dict(k=1, swaps=[N])),
          Case('k1_swapped', h_obstruction, params=dict(k=1, swaps=[Y])),
          Case('k2_natural', h_compositional, params=dict(k=2, swaps=[N, N]))]
    if tier == 'thorough':
        for sw in itertools.product([False, True], repeat=3):
            if sw not in (N, Y):
                cs.append(Case('k1_swap_%d%d%d' % tuple(int(x) for x in sw), h_obstruction, params=dict(k=1, swaps=[sw])))
        cs.append(Case('k2_mixed', h_compositional, params=dict(k=2, swaps=[N, Y])))
        cs.append(Case('k3_natural', h_compositional, params=dict(k=3, swaps=[N, N, N])))
        for fam in ('point', 'axis_parallel', 'flat_box'):
            cs.append(Case('k1_' + fam, h_obstruction, params=dict(k=1, swaps=[N], family=fam)))
    return cs
