"""C16 - RRT* builds a collision-free, cost-consistent tree and returns a path in it (DESIGN 5, C16)."""
from fractions import Fraction as F
from ..run import Case
from .. import hlib as H

PROPERTY = 'C16'
LEVEL = 'model_checking'
ENCODED = ['path_planning.pathplanner.RRTStar: __init__, generalGenerateTree, findPathGeneral, distance; R6Tree.place / nearestNeighbors / '
           'getAll; PathNode', 'fsr.distance', 'utilities.disp.progressBar',
           'obstruction (box test), generateTerrain, randomPos, arc-distance mode: concrete runs only']
BOUNDS = {
    'quick': 'ONE growth iteration (iteration budget 1) from a tree of 2 nodes (root + child) whose positions are symbolic abscissae on a line, '
             'costs satisfying the invariant; the sample generator returns an ARBITRARY position (one draw: a rejected draw ends the path), the '
             'collision detector is an ARBITRARY predicate (fresh boolean per queried pair), the DISTANCE is an ARBITRARY positive symmetric '
             'caller-supplied function (fresh value per pair), rational min / max connection distance, neighbour limits 2 and 1; path extraction '
             'towards a symbolic goal on 3-node trees (chain and star). All paths explored (no budget cut). Whole runs: 60 random configurations '
             '(seeds, 0..12 boxes, terrain, bounds, budgets 1..60, both distance modes, neighbour limits 1..20, default and caller-supplied callbacks) '
             'on the real library with the real R-tree.',
    'thorough': 'two draws (one rejection), 3-node pre-trees (chain, star), a 2-D instance; 300 whole runs with budgets up to 200',
}
OUTSIDE = ['trees larger than 3 nodes and more than 2 rejected draws per iteration symbolically', 'the real libspatialindex R-tree is replaced by '
           'an exact in-memory index with the documented nearest / intersection semantics (the real one is used in the concrete runs)',
           'generateTreeDual / findPathDual (not named by the property)']
ASSUMPTIONS = ['rtree.index double: nearest(q, k) = the k items with smallest box distance, ties included, insertion order among equals',
               'random / caller-supplied generator: arbitrary values; collision callback: arbitrary predicate, deterministic per pair within an iteration']
EXPLORER_DEFAULTS = {'quick': dict(prove_timeout_ms=20000, branch_timeout_ms=3000, time_budget_s=700, max_paths=6000, max_decisions=120),
                     'thorough': dict(prove_timeout_ms=60000, branch_timeout_ms=5000, time_budget_s=1200, max_paths=40000, max_decisions=200)}
TOL = '1e-9'
# rejection sampling cannot succeed for some random layouts (start pose inside an obstacle, no admissible distance band): the planner then loops
# for ever - termination is not part of the property - so such a whole-run sample is rejected after this many seconds instead of hanging the check
SAMPLE_TIME_LIMIT_S = 30


def h_step(w):
    from ..world import HarnessReject
    import numpy as _np
    pp = w.lib('path_planning.pathplanner')
    tm = w.lib('general').tm
    # node positions on one line (symbolic abscissae): the index's nearest ordering stays symbolic while its squared-distance
    # comparisons stay within reach of the solver (three free coordinates per node made nlsat hang); the DISTANCE used by the
    # planner is an arbitrary caller-supplied function anyway
    dims = w.params.get('dims', 1)
    pos = lambda name, lim=2: [w.real('%s%d' % (name, k), -lim, lim) if k < dims else 0 for k in range(3)]
    mk = lambda p: tm([p[0], p[1], p[2], 0, 0, 0])
    o = pos('o')
    planner = pp.RRTStar(mk(o))
    planner.iterations = 1
    dmin, dmax = F(1, 10), 2
    planner.minimum_distance = dmin if w.symbolic else float(dmin)
    planner.maximum_distance = dmax
    planner.nearest_neighbors_limit = w.params.get('limit', 2)
    known = []                      # every node the harness knows: (node, position triple)

    def same(a, b):
        if w.symbolic:
            return a is b
        return bool(_np.allclose(_np.asarray(a.getPosition().gTAA(), dtype=float), _np.asarray(b.getPosition().gTAA(), dtype=float), atol=1e-12))

    def register(node, p):
        # the real R-tree hands back pickled copies, so the concrete replay identifies nodes by pose: coincident poses would be ambiguous
        if not w.symbolic:
            for n, _ in known:
                if same(n, node):
                    raise HarnessReject('two harness nodes at the same pose: identity by pose is ambiguous')
        known.append((node, p))

    def ix(node):
        for k, (n, _) in enumerate(known):
            if same(n, node):
                return k
        raise HarnessReject('node not among the harness nodes')

    # caller-supplied distance: an ARBITRARY positive symmetric function (one fresh value per unordered pair)
    dist_memo = {}

    def dist_nodes(i, j):
        key = (min(i, j), max(i, j))
        if key not in dist_memo:
            dist_memo[key] = w.real('dist%d' % len(dist_memo), F(1, 100), 5)
        return dist_memo[key]

    def ix_pos(p):
        for k, (n, _) in enumerate(known):
            if (n.getPosition() is p) if w.symbolic else bool(_np.allclose(_np.asarray(n.getPosition().gTAA(), dtype=float), _np.asarray(p.gTAA(), dtype=float), atol=1e-12)):
                return k
        raise HarnessReject('pose not among the harness nodes')

    distf = lambda x, y: dist_nodes(ix_pos(x), ix_pos(y))
    root = planner.r6_tree_graph.getAll()[0].object
    register(root, o)
    pre = [0]
    for k in range(w.params.get('pre', 1)):
        p = pos('n%d' % k)
        node = pp.PathNode(mk(p))
        register(node, p)
        pi_ = pre[w.params.get('parents', (0, 0))[k]]
        par = known[pi_][0]
        node.cost = distf(node.getPosition(), par.getPosition()) + par.getCost()
        node.setParent(par)
        planner.r6_tree_graph.place(node)
        pre.append(len(known) - 1)
    before = [(i, (ix(known[i][0].getParent()) if known[i][0].getParent() is not None else None), known[i][0].getCost()) for i in pre]
    draws = []
    coll = {}
    calls = []

    def gen():
        if len(draws) >= w.params.get('max_draws', 2):      # more rejected draws: outside the bound
            if w.symbolic:
                w.assume(False)
            raise HarnessReject('more than two rejected draws')
        p = pos('s%d' % len(draws))
        n = pp.PathNode(mk(p))
        register(n, p)
        draws.append(len(known) - 1)
        return n

    def detector(a, b):
        key = (ix(a), ix(b))
        if key not in coll:
            coll[key] = bool(w.real('coll%d' % len(coll), -1, 1) > 0)       # arbitrary verdict, replayable
        calls.append((key[0], key[1], coll[key]))
        return coll[key]

    w.witness()
    grow = w.params.get('grow', True)
    # growth and path extraction are explored separately (their path counts multiply otherwise)
    goal = pos('g', 3) if not grow else [F(5, 2) if w.symbolic else 2.5, 0, 0]
    if grow:
        path = planner.findPathGeneral(lambda: planner.generalGenerateTree(gen, distf, detector), mk(goal))
    else:
        path = planner.findPathGeneral(lambda: None, mk(goal))
    nodes = [it.object for it in planner.r6_tree_graph.getAll()]
    tree_ix = sorted(ix(n) for n in nodes)
    tnode = {ix(n): n for n in nodes}
    if not grow:
        w.prove(tree_ix == sorted(pre), 'path extraction leaves the tree unchanged')
        _path_obligations(w, path, mk, o, goal, known, tnode, tree_ix, ix, ix_pos)
        return
    w.prove(len(nodes) == len(pre) + 1 and planner.r6_tree_graph.getCount() == len(pre) + 1, 'exactly one node added per iteration')
    new = draws[-1]
    w.prove(tree_ix == sorted(pre + [new]), 'tree = previous nodes + the accepted sample')
    for i, pari, cost in before:
        n = tnode.get(i)
        if n is None:
            continue
        w.prove((ix(n.getParent()) if n.getParent() is not None else None) == pari, 'existing nodes keep their parent')
        w.prove_close(n.getCost(), cost, 0, 'existing nodes keep their cost')
    nn = tnode[new] if new in tnode else known[new][0]
    par = ix(nn.getParent()) if nn.getParent() is not None else None
    w.prove(par in pre, 'the new node hangs under a node of the previous tree (rooted, acyclic)')
    if par not in pre:
        return
    pcost = dict((i, c) for i, _, c in before)
    w.prove_close(nn.getCost(), pcost[par] + dist_nodes(new, par), TOL, 'stored cost = parent cost + distance to parent')
    hit = [c for (a, b, c) in calls if a == new and b == par]
    w.prove(len(hit) > 0 and not any(hit), 'the parent link was reported collision-free by the supplied detector')
    # accepted sample: within [min, max] of its then-nearest node (brute force over the previous tree, squared index distance)
    P = lambda i: known[i][1]
    d2 = lambda i, j: sum(((P(i)[k] - P(j)[k]) * (P(i)[k] - P(j)[k]) for k in range(3)), 0)
    conds = []
    for i in pre:
        nearest_i = H.AND(*[d2(new, i) < d2(new, j) for j in pre if j != i]) if len(pre) > 1 else True      # strictly nearest: no tie ambiguity
        dn = dist_nodes(new, i)
        conds.append(H.IMPLIES(nearest_i, H.AND(dn >= dmin, dn <= dmax)))
    w.prove(H.AND(*conds), 'accepted sample within [min, max] connection distance of its then-nearest node')
    # choose-parent: cheapest collision-free candidate among the neighbours examined
    best = pcost[par] + dist_nodes(new, par)
    for m in pre:
        free = [c for (a, b, c) in calls if a == new and b == m]
        if free and not any(free):
            w.prove(best <= pcost[m] + dist_nodes(new, m) + w.const(TOL), 'parent is the cheapest collision-free candidate examined')
    _path_obligations(w, path, mk, o, goal, known, tnode, tree_ix, ix, ix_pos)


def _path_obligations(w, path, mk, o, goal, known, tnode, tree_ix, ix, ix_pos):
    from ..world import HarnessReject
    P = lambda i: known[i][1]
    # path extraction
    w.prove(len(path) >= 2, 'path has at least start and goal')
    w.prove_close(path[0].gTM(), mk(o).gTM(), 0, 'path starts at the root pose')
    w.prove_close(path[-1].gTM(), mk(goal).gTM(), 0, 'path ends with the goal')
    try:
        pidx = [ix_pos(q) for q in path[:-1]]
    except HarnessReject:
        w.prove(False, 'path poses are tree node poses')
        return
    okc = pidx[0] == 0
    for a_, b_ in zip(pidx[:-1], pidx[1:]):
        pa = tnode[b_].getParent() if b_ in tnode else None
        okc = okc and pa is not None and ix(pa) == a_
    w.prove(okc, 'path follows parent links of the tree in order')
    end = pidx[-1]
    g2 = lambda i: sum(((P(i)[k] - goal[k]) * (P(i)[k] - goal[k]) for k in range(3)), 0)
    w.prove(H.AND(*[g2(end) <= g2(j) for j in tree_ix]), 'path leaves the tree at the node nearest the goal')


def h_runs(w):
    """whole runs on the real library (real R-tree, real random module seeded by the harness)"""
    import numpy as np
    import random as pyrandom
    pp = w.lib('path_planning.pathplanner')
    G = w.lib('general')
    tm, fsr = G.tm, G.fsr
    seed = int(w.real('seed', 0, 10 ** 6))
    pyrandom.seed(seed)
    np.random.seed(seed % (2 ** 31))
    rng = pyrandom.Random(seed + 1)
    origin = tm([w.real('ox', -3, 3), w.real('oy', -3, 3), w.real('oz', -3, 3), w.real('oa', -1, 1), w.real('ob', -1, 1), w.real('oc', -1, 1)])
    planner = pp.RRTStar(origin)
    itmax = int(w.params.get('itmax', 60))
    planner.iterations = 1 + int(w.real('iters', 0, itmax)) % itmax
    planner.dmode = 1 if w.real('dmode', 0, 1) > 0.7 else 0
    planner.nearest_neighbors_limit = 1 + int(w.real('limit', 0, 20)) % 20
    planner.minimum_distance = w.real('dmin', 0.05, 0.5)
    planner.maximum_distance = w.real('dmax', 2.0, 30.0)
    half = w.real('bound', 3, 10)
    planner.bounds = [[-half, half]] * 3 + [[-1.5, 1.5]] * 3
    nbox = int(w.real('boxes', 0, 13)) % 13
    for k in range(nbox):
        c = [rng.uniform(-half, half) for _ in range(3)]
        e = [rng.uniform(0.2, half / 3) for _ in range(3)]
        o3 = [float(origin[i]) for i in range(3)]
        if all(c[i] - e[i] - 0.3 <= o3[i] <= c[i] + e[i] + 0.3 for i in range(3)):
            continue                  # a box around the start pose blocks every first edge: the planner cannot make progress
        planner.addObstruction([c[i] - e[i] for i in range(3)], [c[i] + e[i] for i in range(3)])
    if w.real('terrain', 0, 1) > 0.7:
        planner.generateTerrain(4, 4, 2, 2, 1.0, -2, -2)
    # the root must not sit inside a box for the tree to be able to grow
    log = [(planner.r6_tree_graph.getAll()[0].object, None, 0, [])]        # the root was placed by the constructor
    real_place = planner.r6_tree_graph.place

    def place(node):
        log.append((node, node.getParent(), node.getCost(), [e[0] for e in log]))
        return real_place(node)
    planner.r6_tree_graph.place = place
    custom = w.real('custom', 0, 1) > 0.5
    detector_calls = []
    if custom:
        def detector(a, b):
            r = planner.obstruction(a, b)
            detector_calls.append((a, b, r))
            return r
        gen = lambda: planner.randomPos()
        distf = lambda x, y: planner.distance(x, y)
        goal = tm([rng.uniform(-half, half) for _ in range(3)] + [0, 0, 0])
        path = planner.findPathGeneral(lambda: planner.generalGenerateTree(gen, distf, detector), goal)
    else:
        goal = tm([rng.uniform(-half, half) for _ in range(3)] + [0, 0, 0])
        path = planner.findPath(goal)
    # the real R-tree stores PICKLED COPIES of the nodes: identity is by pose, not by Python object
    key = lambda n: tuple(np.round(np.asarray(n.getPosition().gTAA(), dtype=float).reshape(-1), 9))
    dist = lambda a, b: float(np.asarray(planner.distance(a, b)).reshape(-1)[0])
    nodes = [it.object for it in planner.r6_tree_graph.getAll()]
    w.prove(len(nodes) == planner.iterations + 1 and planner.r6_tree_graph.getCount() == planner.iterations + 1, 'one node per iteration plus the root',
            '%d nodes for %d iterations' % (len(nodes), planner.iterations))
    bykey = {key(n): n for n in nodes}
    w.prove(len(bykey) == len(nodes), 'tree nodes have distinct poses')
    roots = [n for n in nodes if n.getParent() is None]
    w.prove(len(roots) == 1 and np.allclose(roots[0].getPosition().gTM(), origin.gTM()), 'single root at the start pose')
    ok_chain = ok_cost = ok_free = True
    detail = ''
    for n in nodes:
        seen = set()
        cur = n
        while cur is not None and key(cur) not in seen:
            seen.add(key(cur))
            if key(cur) not in bykey:
                ok_chain = False
            else:
                tn = bykey[key(cur)]        # the tree's own record of that node must agree on parent and cost
                if (tn.getParent() is None) != (cur.getParent() is None) or abs(tn.getCost() - cur.getCost()) > 1e-9 or \
                        (tn.getParent() is not None and key(tn.getParent()) != key(cur.getParent())):
                    ok_chain = False
            cur = cur.getParent()
        if cur is not None:
            ok_chain = False
        p = n.getParent()
        if p is not None:
            if abs(n.getCost() - (p.getCost() + dist(n.getPosition(), p.getPosition()))) > 1e-9 * (1 + abs(n.getCost())):
                ok_cost = False
                detail = 'cost %r parent %r dist %r' % (n.getCost(), p.getCost(), dist(n.getPosition(), p.getPosition()))
            if planner.obstruction(n, p):
                ok_free = False
    w.prove(ok_chain, 'every node reaches the root through parent links inside the tree, no cycles')
    w.prove(ok_cost, 'stored cost = parent cost + distance to parent', detail)
    w.prove(ok_free, 'every parent link is collision-free under the detector')
    # insertion-time clauses replayed against a brute-force nearest-neighbour search
    ok_range = ok_best = True
    d6 = lambda a, b: float(np.linalg.norm(np.asarray(a.getPosition().gTAA(), dtype=float).reshape(-1) - np.asarray(b.getPosition().gTAA(), dtype=float).reshape(-1)))
    for node, par, cost, prev in log:
        if not prev:
            continue
        near = min(prev, key=lambda m: d6(node, m))
        dn = dist(node.getPosition(), near.getPosition())
        if not (planner.minimum_distance - 1e-9 <= dn <= planner.maximum_distance + 1e-9):
            ok_range = False
            detail = 'distance to then-nearest %r' % dn
        k = planner.nearest_neighbors_limit
        cand = sorted(prev, key=lambda m: d6(node, m))[:k]
        if not any(m is near for m in cand):
            cand.append(near)
        free = [m for m in cand if not planner.obstruction(node, m)]
        if free:
            bestc = min(m.getCost() + dist(node.getPosition(), m.getPosition()) for m in free)
            if cost > bestc + 1e-9 * (1 + abs(bestc)):
                ok_best = False
                detail = 'attached at cost %r, cheapest collision-free examined candidate %r' % (cost, bestc)
    w.prove(ok_range, 'accepted samples lay within [min, max] of their then-nearest node', detail)
    w.prove(ok_best, 'each node attached to the cheapest collision-free candidate among the neighbours examined', detail)
    # path
    pk = lambda q: tuple(np.round(np.asarray(q.gTAA(), dtype=float).reshape(-1), 9))
    w.prove(len(path) >= 2 and np.allclose(path[0].gTM(), origin.gTM()) and path[-1] is goal, 'path starts at the start pose and ends with the goal')
    okp = len(path) >= 2 and all(pk(q) in bykey for q in path[:-1])
    if okp:
        for a_, b_ in zip(path[:-2], path[1:-1]):
            pb = bykey[pk(b_)].getParent()
            okp = okp and pb is not None and key(pb) == pk(a_)
        okp = okp and bykey[pk(path[0])].getParent() is None
    w.prove(okp, 'path follows parent links of the tree in order')
    if okp:
        dgoal = [d6(PathGoal, n) for n in nodes] if False else [float(np.linalg.norm(np.asarray(n.getPosition().gTAA(), dtype=float).reshape(-1) - np.asarray(goal.gTAA(), dtype=float).reshape(-1))) for n in nodes]
        endd = float(np.linalg.norm(np.asarray(path[-2].gTAA(), dtype=float).reshape(-1) - np.asarray(goal.gTAA(), dtype=float).reshape(-1)))
        w.prove(endd <= min(dgoal) + 1e-9, 'path leaves the tree at the node nearest the goal')


def cases(tier, seed):
    md = 1 if tier == 'quick' else 2
    cs = [Case('step_pre1_limit2', h_step, params=dict(pre=1, limit=2, max_draws=md)),
          Case('step_pre1_limit1', h_step, params=dict(pre=1, limit=1, max_draws=md)),
          Case('path_pre2_chain', h_step, params=dict(pre=2, parents=(0, 1), grow=False)),
          Case('path_pre2_star', h_step, params=dict(pre=2, parents=(0, 0), grow=False))]
    if tier == 'thorough':
        cs.append(Case('step_pre2_chain', h_step, params=dict(pre=2, parents=(0, 1), limit=3)))
        cs.append(Case('step_pre2_star', h_step, params=dict(pre=2, parents=(0, 0), limit=2)))
        cs.append(Case('step_pre1_2d', h_step, params=dict(pre=1, limit=2, dims=2)))
    cs.append(Case('whole_runs', h_runs, params=dict(itmax=60 if tier == 'quick' else 200), concrete_only=True,
                   concrete_samples=60 if tier == 'quick' else 300))
    return cs
