"""C17 - compiled kernels never index out of bounds (source-level clause; DESIGN 5, C17).

The @jit kernels are executed SYMBOLICALLY from their Python source (numba.jit = identity in the loader): an index outside
[-n, n) raises IndexError exactly where NUMBA_BOUNDSCHECK=1 would, on every path the solver finds feasible - value-dependent
branches (NearZero, half turns, singular cases) included.  The harness functions of the other properties supply valid symbolic
arguments for every kernel and caller; their own obligations are silenced here (a value bug is not an index bug).
The compiled-vs-interpreted clause is outside symbolic reach (machine code) - see DESIGN.md."""
import ast
import os
from ..run import Case, REPO

PROPERTY = 'C17'
LEVEL = 'model_checking'
JIT_FILES = ['basic_robotics/modern_robotics_numba/modern_high_performance.py', 'basic_robotics/general/faser_high_performance.py']
ENCODED = ['all @jit functions of ' + ' and '.join(JIT_FILES) + ' reached by the driver cases (list with per-kernel execution counts in coverage.kernels)',
           'callers: Arm.FK / FKLink / FKJoint / jacobian* / dynamics, SP.IK / FK, tm conversions (through the harness functions of C01-C09)']
BOUNDS = {
    'quick': 'argument shapes and bounds of the driver cases: rigid-body algebra fully symbolic; chains with n <= 3 joints, every link / joint '
             'index 0..n-1; one Stewart platform geometry; all paths within each case\'s path budget',
    'thorough': 'same + the drivers of C01, C03, C04, C08, C12',
}
OUTSIDE = ['"compiled kernel returns the same values as its interpreted source for C/F-ordered, sliced and integer-typed arguments": machine code and '
           'numba typing are outside symbolic reach - NOT claimed (a concrete py_func-vs-compiled differential would be testing, not solving)',
           'kernels not reached by any driver are listed as uncovered in the evidence']
ASSUMPTIONS = ['numpy index semantics: an integer index outside [-n, n) raises IndexError; slices clip (identical in numba nopython mode)',
               'negative indices wrap (legal in both)']
EXPLORER_DEFAULTS = {'quick': dict(prove_timeout_ms=10000, branch_timeout_ms=3000, time_budget_s=600, max_paths=80, max_decisions=200),
                     'thorough': dict(prove_timeout_ms=10000, branch_timeout_ms=5000, time_budget_s=1200, max_paths=300, max_decisions=300)}
# replays run the interpreted source: without bounds checking a compiled kernel reads past the end silently
REPLAY_ENV = {'NUMBA_DISABLE_JIT': '1'}
LABEL = 'every index used by the kernels and their callers lies inside the array it is applied to'


def jit_functions():
    out = {}
    for rel in JIT_FILES:
        tree = ast.parse(open(os.path.join(REPO, rel)).read())
        for node in tree.body:
            if isinstance(node, ast.FunctionDef):
                for d in node.decorator_list:
                    src = ast.dump(d)
                    if 'jit' in src:
                        out.setdefault(rel, []).append(node.name)
                        break
    return out


class Quiet:
    """world proxy: inputs and assumptions are passed through, the driver's own obligations are not checked"""

    def __init__(self, w):
        object.__setattr__(self, '_w', w)

    def __getattr__(self, k):
        return getattr(self._w, k)

    def __setattr__(self, k, v):
        setattr(self._w, k, v)

    def prove(self, *a, **k): return True
    def prove_close(self, *a, **k): return True
    def prove_eq(self, *a, **k): return True
    def prove_shape(self, *a, **k): return True
    def lemma(self, *a, **k): return True
    def witness(self, *a, **k): return True, None

    def prove_raises(self, fn, exc_types, label):
        try:
            fn()
        except exc_types:
            pass
        return True


def _trace(w):
    """count executions of each @jit kernel (symbolic runs only)"""
    if not w.symbolic:
        return
    from .. import symnp
    names = jit_functions()
    mods = {'basic_robotics/modern_robotics_numba/modern_high_performance.py': 'modern_robotics_numba.modern_high_performance',
            'basic_robotics/general/faser_high_performance.py': 'general.faser_high_performance'}
    for rel, fns in names.items():
        try:
            mod = w.lib(mods[rel])
        except Exception:
            continue
        if getattr(mod, '_c17_traced', False):
            continue
        mod._c17_traced = True
        short = rel.split('/')[-1][:-3]
        for name in fns:
            f = mod.__dict__.get(name)
            if f is None or not callable(f):
                continue

            def make(f, key):
                def traced(*a, **k):
                    symnp.StubLog.note(key)
                    return f(*a, **k)
                traced.__name__ = f.__name__
                traced.__wrapped__ = f
                return traced
            mod.__dict__[name] = make(f, 'kernel executed: %s.%s' % (short, name))


def wrap(fn):
    def driver(w):
        _trace(w)
        try:
            fn(Quiet(w))
        except IndexError as e:
            import traceback
            tb = traceback.extract_tb(e.__traceback__)
            where = ['%s:%d %s' % (os.path.relpath(f.filename, REPO) if f.filename.startswith(REPO) else f.filename, f.lineno, f.name)
                     for f in tb if '/repo/' in f.filename or f.filename.startswith(REPO)][-3:]
            w.prove(False, LABEL, 'IndexError: %s at %s' % (e, ' <- '.join(reversed(where))))
            return
        except Exception as e:
            from ..world import HarnessReject
            if isinstance(e, HarnessReject):
                raise
            if w.symbolic:
                from .. import symnp
                symnp.StubLog.note('driver path ended by %s (not an index error: some other property\'s business)' % type(e).__name__)
                if os.environ.get('C17_DEBUG'):
                    import traceback
                    traceback.print_exc()
            return
        w.prove(True, LABEL)
    driver.__name__ = 'c17_' + getattr(fn, '__name__', 'driver')
    return driver


def h_misc(w):
    """kernels no other driver reaches: helpers on vectors / matrices and the frame conversions on 6-vectors"""
    if w.symbolic:
        from .. import summary as SM
        SM.install(w.env)          # Log of a composed rotation as an uninterpreted map (C01 contracts); indices are unaffected
    mhp = w.lib('modern_robotics_numba.modern_high_performance')
    v3 = w.array(w.reals('a', 3, -10, 10))
    mhp.AngleMod(v3.copy())
    v6 = w.array(w.reals('b', 6, -3, 3))
    mhp.Norm6(v6)
    A = w.array([w.reals('A%d' % i, 3, -2, 2) for i in range(3)])
    B = w.array([w.reals('B%d' % i, 3, -2, 2) for i in range(3)])
    mhp.MatMul(A, B)
    mhp.SafeDot(A, B)
    th = w.angle('th', w.const('1e-3'), 3)
    ref = w.array([[w.real('p%d' % i, -2, 2)] for i in range(3)] + [[0], [0], [th]])
    rel = w.array([[w.real('q%d' % i, -2, 2)] for i in range(3)] + [[0], [0], [0]])
    mhp.LocalToGlobal(ref, rel)
    mhp.GlobalToLocal(ref, rel)


def _drivers(tier, seed):
    import importlib
    mods = ['c02_port_vs_reference', 'c05_arm_fk', 'c06_arm_jacobian', 'c09_sp_kinematics', 'c10_sp_coherence']
    if tier == 'thorough':
        mods += ['c01_rigid_motion', 'c03_tm_coherence', 'c04_transform_algebra', 'c08_dynamics', 'c12_wrench_screw', 'c07_arm_ik']
    out = []
    for m in mods:
        mod = importlib.import_module('vt.harness.' + m)
        for c in mod.cases('quick', seed):
            if c.engine != 'symnp' or c.concrete_only:
                continue
            out.append((m[:3], mod, c))
    return out


def cases(tier, seed):
    cs = [Case('misc_helpers', wrap(h_misc), params=dict(summary=True), concrete_samples=1)]
    for tag, mod, c in _drivers(tier, seed):
        opts = dict(getattr(mod, 'EXPLORER_DEFAULTS', {}).get('quick', {}))
        opts.update(c.opts or {})
        opts['prove_timeout_ms'] = 5000
        cs.append(Case('%s_%s' % (tag, c.name), wrap(c.fn), params=c.params, opts=opts, concrete_samples=1))
    return cs


def extra_evidence(ev, results):
    names = jit_functions()
    used = {}
    for k, v in (ev.get('assumptions_stubs') or {}).items():
        pass
    stubs = {}
    for r in results:
        for k, v in (r.get('stubs') or {}).items():
            if k.startswith('kernel executed: '):
                stubs[k[len('kernel executed: '):]] = stubs.get(k[len('kernel executed: '):], 0) + v
    cov = {}
    uncovered = []
    for rel, fns in names.items():
        short = rel.split('/')[-1][:-3]
        for f in fns:
            n = stubs.get('%s.%s' % (short, f), 0)
            cov['%s.%s' % (short, f)] = n
            if n == 0:
                uncovered.append('%s.%s' % (short, f))
    ev.setdefault('coverage', {})['kernels'] = dict(total=len(cov), executed=len(cov) - len(uncovered), executions=cov, uncovered=uncovered)
