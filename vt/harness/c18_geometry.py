"""C18 - geometric helper functions satisfy their defining relations (DESIGN 5, C18)."""
from fractions import Fraction
from ..run import Case
from .. import hlib as H

PROPERTY = 'C18'
LEVEL = 'model_checking'
ENCODED = ['general.faser_general: planeFromThreePoints, planePointsFromTransform, mirror, tmAvgMidpoint, tmInterpMidpoint, '
           'adjustRotationToMidpoint, lookAt, distance, arcDistance, closeLinearGap, closeArcGap, IKPath, twistToGoal, '
           'twistFromTransform, transformFromTwist, chainJacobian, fiboSphere, unitSphere',
           'general.basic_helpers.angleMod', 'tm.angleMod / tm.tripleUnit', 'mr.AngleMod', 'mr.JacobianSpace']
BOUNDS = {
    'quick': 'poses (p, theta*u): |p| <= 10, theta in [1e-6, pi-1e-3], |u| = 1, all symbolic and NOT through the origin; step sizes '
             'in (0, 1]; path lengths 2..5 symbolically (2..200 by concrete sampling); sampler sizes 1..8; angles in [-50, 50] as scalars, arrays and six-vectors',
    'thorough': 'same with path lengths 2..7 and sampler sizes 1..16',
}
OUTSIDE = ['lookAt with the target exactly above/below the viewing pose: the library reaches its fallback through a NaN-induced '
           'ZeroDivisionError, a float-only behaviour with no counterpart over the reals; exercised by concrete sampling only',
           'rotationFromVector (Nelder-Mead fmin) and the accuracy of numericalJacobian (truncation error): not encodable',
           'step counts beyond the bound (the loop body is the same per step)', 'floating point',
           'Exp/Log of composed rotations are summarised with the contracts proved by C01 (incl. |Log R| = arccos((tr R-1)/2) '
           'and R = Rodrigues(Log R))']
ASSUMPTIONS = ['summary mode (see C01)']
EXPLORER_DEFAULTS = {'quick': dict(prove_timeout_ms=45000, time_budget_s=900, max_paths=300),
                     'thorough': dict(prove_timeout_ms=180000, time_budget_s=1200, max_paths=2000)}
TOL = '1e-8'


def _libs(w, summary=True):
    if w.symbolic and summary:
        from .. import summary as SM
        SM.install(w.env)
    g = w.lib('general')
    return g.tm, g.fsr, w.lib('general.basic_helpers'), w.lib('modern_robotics_numba.modern_high_performance')


def _pose(w, tm, name, plim=10):
    th = w.angle(name + 'th', w.const('1e-6'), w.pi - w.const('1e-3'))
    u = w.unit3(name + 'u')
    p = w.reals(name + 'p', 3, -plim, plim)
    return tm([p[0], p[1], p[2], th * u[0], th * u[1], th * u[2]]), p, th, u


def _point(w, tm, name, plim=10):
    p = w.reals(name, 3, -plim, plim)
    return tm([p[0], p[1], p[2], 0, 0, 0]), p


def h_mirror(w):
    tm, fsr, bh, mr = _libs(w)
    F, o, th, u = _pose(w, tm, 'F')
    P, p = _point(w, tm, 'P')
    w.witness()
    M = fsr.mirror(F, P)
    R = F.gTM()[0:3, 0:3]
    z = [R[0, 2], R[1, 2], R[2, 2]]
    s = H.dot([p[i] - o[i] for i in range(3)], z)
    exp = [p[i] - 2 * s * z[i] for i in range(3)]
    w.prove_close([M[0], M[1], M[2]], exp, TOL, 'mirror = reflection in the frame\'s local XY plane')
    # local coordinates: only z is negated
    loc = lambda q: [H.dot([q[i] - o[i] for i in range(3)], [R[0, k], R[1, k], R[2, k]]) for k in range(3)]
    lp, lm = loc(p), loc([M[0], M[1], M[2]])
    w.prove_close(lm, [lp[0], lp[1], -lp[2]], TOL, 'mirror negates only the local z coordinate')
    M2 = fsr.mirror(F, M)
    w.prove_close([M2[0], M2[1], M2[2]], p, TOL, 'mirror is an involution')


def h_plane(w):
    tm, fsr, bh, mr = _libs(w)
    pts = [_point(w, tm, 'P%d' % i) for i in range(3)]
    w.witness()
    a, b, c, d = fsr.planeFromThreePoints(pts[0][0], pts[1][0], pts[2][0])
    for i, (_, p) in enumerate(pts):
        w.prove_close(a * p[0] + b * p[1] + c * p[2], d, TOL, 'plane contains point %d' % i)
    # also from raw vectors
    a, b, c, d = fsr.planeFromThreePoints(w.array(pts[0][1]), w.array(pts[1][1]), w.array(pts[2][1]))
    for i, (_, p) in enumerate(pts):
        w.prove_close(a * p[0] + b * p[1] + c * p[2], d, TOL, 'plane (vector input) contains point %d' % i)
    F, o, th, u = _pose(w, tm, 'F')
    t1, t2, t3 = fsr.planePointsFromTransform(F)
    R = F.gTM()[0:3, 0:3]
    w.prove_close([t1[0], t1[1], t1[2]], o, TOL, 'plane points: origin')
    w.prove_close([t2[i] - o[i] for i in range(3)], [R[0, 0], R[1, 0], R[2, 0]], TOL, 'plane points: local x')
    w.prove_close([t3[i] - o[i] for i in range(3)], [R[0, 1], R[1, 1], R[2, 1]], TOL, 'plane points: local y')


def h_midpoint(w):
    tm, fsr, bh, mr = _libs(w)
    A, pa, tha, ua = _pose(w, tm, 'A')
    B, pb, thb, ub = _pose(w, tm, 'B')
    w.witness()
    mean = [(pa[i] + pb[i]) / 2 for i in range(3)]
    Mavg = fsr.tmAvgMidpoint(A, B)
    w.prove_close([Mavg[0], Mavg[1], Mavg[2]], mean, TOL, 'tmAvgMidpoint: mean position')
    Mi = fsr.tmInterpMidpoint(A, B)
    w.prove_close([Mi[0], Mi[1], Mi[2]], mean, TOL, 'tmInterpMidpoint: mean position')
    R1, R2, Rm = A.gTM()[0:3, 0:3], B.gTM()[0:3, 0:3], Mi.gTM()[0:3, 0:3]
    w.prove_close(Rm.T @ Rm, H.eye(w, 3), w.params.get('rtol', '1e-6'), 'tmInterpMidpoint: rotation is orthonormal')
    # geodesically halfway: Rm = Exp(1/2 Log(R2 R1^T)) R1  (= R1 Exp(1/2 Log(R1^T R2)) by conjugation).  In the symbolic
    # world Log of the composed rotation is the uninterpreted summary of C01, so this pins down WHICH matrix is logged,
    # that the LOGARITHM (not the matrix) is halved, and the order of composition.
    half_log = mr.MatrixLog3(R2 @ R1.T) / 2
    w.prove_close(Rm, mr.MatrixExp3(half_log) @ R1, w.params.get('rtol', '1e-6'),
                  'tmInterpMidpoint: rotation = Exp(Log(R2 R1^T)/2) R1 (geodesic midpoint)')
    if not w.symbolic:
        # the relative rotation from R1 to the midpoint, applied twice, is the rotation from R1 to R2 - the short way
        half = R1.T @ Rm
        w.prove_close(half @ half, R1.T @ R2, 1e-6, 'tmInterpMidpoint: rotation halfway (squares to the relative rotation)')
        w.prove(float(half[0, 0] + half[1, 1] + half[2, 2]) >= 1 - 1e-9, 'tmInterpMidpoint: the short way round')
    C, pc, thc, uc = _pose(w, tm, 'C')
    Adj = fsr.adjustRotationToMidpoint(C, A, B)
    w.prove_close([Adj[0], Adj[1], Adj[2]], pc, TOL, 'adjustRotationToMidpoint keeps the position')
    w.prove_close(Adj.gTM()[0:3, 0:3], Rm, w.params.get('rtol', '1e-6'), 'adjustRotationToMidpoint takes the midpoint rotation')


def h_lookat(w):
    tm, fsr, bh, mr = _libs(w)
    A, pa, tha, ua = _pose(w, tm, 'A')
    if w.params.get('vertical'):
        h = w.real('h', w.const('1e-2'), 10)
        sgn = w.params['vertical']
        B = tm([pa[0], pa[1], pa[2] + sgn * h, 0, 0, 0])
        pb = [pa[0], pa[1], pa[2] + sgn * h]
    else:
        B, pb = _point(w, tm, 'B')
        dxy = (pb[0] - pa[0]) * (pb[0] - pa[0]) + (pb[1] - pa[1]) * (pb[1] - pa[1])
        w.assume(dxy >= w.const('1e-4'))
    w.witness()
    L = fsr.lookAt(A, B)
    T = L.gTM()
    R = T[0:3, 0:3]
    tol = w.params.get('tol', TOL)
    w.prove_close(T[0:3, 3], pa, TOL, 'lookAt keeps the position')
    w.prove_close(R.T @ R, H.eye(w, 3), tol, 'lookAt: orthonormal')
    w.prove_close(H.det3(R), 1, tol, 'lookAt: proper rotation (det +1)')
    d = [pb[i] - pa[i] for i in range(3)]
    n = w.sqrt(H.dot(d, d))
    w.prove_close([R[0, 2] * n, R[1, 2] * n, R[2, 2] * n], d, w.params.get('ztol', TOL), 'lookAt: local z points at the target')
    w.prove_close(T[3, :], [0, 0, 0, 1], 0, 'lookAt: last row')


def h_distance(w):
    tm, fsr, bh, mr = _libs(w)
    A, pa = _point(w, tm, 'A')
    v1 = w.reals('v', 3, -10, 10)
    v2 = w.reals('w', 3, -10, 10)
    pb = [pa[i] + v1[i] for i in range(3)]
    pc = [pb[i] + v2[i] for i in range(3)]
    B = tm([pb[0], pb[1], pb[2], 0, 0, 0])
    C = tm([pc[0], pc[1], pc[2], 0, 0, 0])
    w.witness()
    dab, dba, dbc, dac = fsr.distance(A, B), fsr.distance(B, A), fsr.distance(B, C), fsr.distance(A, C)
    w.prove_close(dab, dba, TOL, 'distance symmetric')
    w.prove_close(fsr.distance(A, A), 0, TOL, 'distance(a, a) = 0')
    w.prove(dab >= 0, 'distance non-negative')
    w.prove_close(dab * dab, H.dot([pa[i] - pb[i] for i in range(3)], [pa[i] - pb[i] for i in range(3)]), w.params.get('sqtol', '1e-6'),
                  'distance^2 = squared Euclidean norm')
    # triangle inequality through the cut rule: Cauchy-Schwarz, then v.w <= |v||w|, then the inequality itself
    vw = H.dot(v1, v2)
    w.lemma(vw * vw <= H.dot(v1, v1) * H.dot(v2, v2) + (0 if w.symbolic else 1e-9), 'Cauchy-Schwarz for the two edge vectors')
    eps = 0 if w.symbolic else 1e-9          # exact over the reals; float slack for the concrete replay
    w.lemma(vw <= dab * dbc + eps, 'v.w <= d(a,b) d(b,c)')
    w.prove(dac <= dab + dbc + eps, 'triangle inequality')
    w.prove(H.IMPLIES(dab <= w.const('1e-12'), H.AND(*[(pa[i] - pb[i]) * (pa[i] - pb[i]) <= w.const('1e-20') for i in range(3)])),
            'distance 0 only for equal points')


def h_arcdistance(w):
    tm, fsr, bh, mr = _libs(w)
    A, pa, tha, ua = _pose(w, tm, 'A')
    B, pb, thb, ub = _pose(w, tm, 'B')
    w.witness()
    d = fsr.arcDistance(A, B)
    rel = (A.inv() @ B).gTAA()
    n2 = sum((rel[i, 0] * rel[i, 0] for i in range(6)), 0)
    w.prove_close(d * d, n2, w.params.get('sqtol', '1e-6'), 'arcDistance = norm of the relative pose inv(a) b')
    w.prove(d >= 0, 'arcDistance non-negative')
    w.prove_close(fsr.arcDistance(A, A), 0, TOL, 'arcDistance(a, a) = 0')


def h_gap(w):
    tm, fsr, bh, mr = _libs(w)
    A, pa, tha, ua = _pose(w, tm, 'A')
    B, pb, thb, ub = _pose(w, tm, 'B')
    delta = w.real('delta', w.const('1e-3'), 1)
    sep = sum(((B.gTAA()[i, 0] - A.gTAA()[i, 0]) ** 2 for i in range(6)), 0)
    w.assume(sep >= w.const('1e-6'))
    w.witness()
    a0, b0 = A.gTAA(), B.gTAA()
    if w.params['kind'] == 'linear':
        N = fsr.closeLinearGap(A, B, delta)
        step = [N.gTAA()[i, 0] - a0[i, 0] for i in range(6)]
        w.prove_close(H.dot(step, step), delta * delta, w.params.get('sqtol', '1e-8'), 'closeLinearGap advances by exactly delta')
        # toward the goal: step = (goal - origin) * delta / |goal - origin|  (a positive multiple of the gap)
        g = [b0[i, 0] - a0[i, 0] for i in range(6)]
        r = w.sqrt(H.dot(g, g))
        w.prove_close([step[i] * r for i in range(6)], [g[i] * delta for i in range(6)], w.params.get('sqtol', '1e-8'),
                      'closeLinearGap step = gap * delta / |gap| (toward the goal)')
    else:
        N = fsr.closeArcGap(A, B, delta)
        # the step taken, as a relative pose: (v, w) = delta * (goal - origin) / |goal - origin| has norm exactly delta,
        # and the result is origin o exp-pose(v, w); its arc distance from the origin is then |(v, w)| = delta because
        # |w| <= delta <= 1 < pi (C01: log(exp(w)) = w)
        g = [b0[i, 0] - a0[i, 0] for i in range(6)]
        r = w.sqrt(H.dot(g, g))
        step = [g[i] * delta / r for i in range(6)]
        w.prove_close(H.dot(step, step), delta * delta, w.params.get('sqtol', '1e-8'), 'closeArcGap: relative step has norm exactly delta')
        E = H.T_of(w, mr.MatrixExp3(mr.VecToso3(w.array(step[3:6]))), step[0:3])
        w.prove_close(N.gTM(), A.gTM() @ E, w.params.get('sqtol', '1e-8'), 'closeArcGap = origin composed with the exp-pose of the step')
        if not w.symbolic:
            d = fsr.arcDistance(A, N)
            w.prove_close(d, delta, 1e-7, 'closeArcGap advances by exactly delta (arc distance from the origin)')
    w.prove_close(A.gTAA(), a0, 0, 'origin not modified')
    w.prove_close(B.gTAA(), b0, 0, 'goal not modified')


def h_ikpath(w):
    tm, fsr, bh, mr = _libs(w)
    A, pa, tha, ua = _pose(w, tm, 'A')
    B, pb, thb, ub = _pose(w, tm, 'B')
    steps = w.params['steps']
    w.witness()
    path = fsr.IKPath(A, B, steps)
    w.prove(len(path) == steps, 'IKPath has the requested number of poses (%d)' % steps)
    a0, b0 = A.gTAA(), B.gTAA()
    for i, pose in enumerate(path):
        f = Fraction(i, steps - 1) if w.symbolic else i / (steps - 1)
        exp = [a0[k, 0] + (b0[k, 0] - a0[k, 0]) * f for k in range(6)]
        w.prove_close([pose.gTAA()[k, 0] for k in range(6)], exp, TOL, 'IKPath pose %d evenly spaced' % i)
    w.prove_close(path[0].gTM(), A.gTM(), TOL, 'IKPath starts at the start')
    w.prove_close(path[-1].gTM(), B.gTM(), TOL, 'IKPath ends at the goal')


def h_ikpath_many(w):
    for steps in range(2, 201):
        w.params['steps'] = steps
        h_ikpath(w)


def h_twist_to_goal(w):
    tm, fsr, bh, mr = _libs(w)
    A, pa, tha, ua = _pose(w, tm, 'A')
    B, pb, thb, ub = _pose(w, tm, 'B')
    w.witness()
    tw = fsr.twistToGoal(A, B)
    E = fsr.transformFromTwist(tw)
    w.prove_close((E @ A).gTM(), B.gTM(), w.params.get('tol', '1e-6'), 'exp(twistToGoal(a, b)) maps a onto b')
    tw2 = fsr.twistFromTransform(A)
    w.prove_close(fsr.transformFromTwist(tw2).gTM(), A.gTM(), w.params.get('tol', '1e-6'), 'transformFromTwist(twistFromTransform(a)) = a')


def h_chain_jacobian(w):
    tm, fsr, bh, mr = _libs(w, summary=False)
    n = w.params['n']
    # screws: unit rotation axes through symbolic points (revolute) - concrete axes, symbolic joint values and points
    axes = [[0, 0, 1], [0, 1, 0], [1, 0, 0], [0, 0, 1]]
    cols = []
    for i in range(n):
        q = w.reals('q%d_' % i, 3, -2, 2)
        wv = axes[i % 4]
        v = H.cross(q, wv)          # v = -w x q = q x w
        cols.append([wv[0], wv[1], wv[2], v[0], v[1], v[2]])
    S_ = w.array(cols).T
    th = [w.angle('t%d' % i, w.const('1e-6'), 3) for i in range(n)]
    w.witness()
    Jc = fsr.chainJacobian(S_, w.array(th))
    Js = mr.JacobianSpace(S_, w.array(th))
    w.prove_close(Jc, Js, TOL, 'chainJacobian = JacobianSpace')


def h_spheres(w):
    tm, fsr, bh, mr = _libs(w, summary=False)
    n = w.params['n']
    pts = fsr.fiboSphere(n)
    w.prove_shape(pts, (n, 3), 'fiboSphere returns n points')
    for i in range(n):
        w.prove_close(H.dot(list(pts[i]), list(pts[i])), 1, TOL, 'fiboSphere point %d is a unit vector' % i)
    pts = fsr.unitSphere(n)
    for i in range(len(pts)):
        w.prove_close(H.dot(list(pts[i]), list(pts[i])), 1, TOL, 'unitSphere point %d is a unit vector' % i)
    w.prove(len(pts) >= 1, 'unitSphere returns points')


def _is_mult_2pi(w, diff, label):
    """diff / (2 pi) is an integer"""
    if w.symbolic:
        S = w.S
        q = S.Sym.lift(diff) / (2 * w.pi)
        if q.is_zero():
            w.prove(True, label)
            return
        cv = q.const_value()
        if cv is not None:
            w.prove(Fraction(cv).denominator == 1, label)
            return
        # integer-valued polynomial in integer atoms with integer coefficients?
        ok = (not q.f) and all(Fraction(c).denominator == 1 and all(S.ATOMS[i].kind == 'int' for i, e in m)
                               for m, c in q.n.items())
        if ok:
            w.prove(True, label)
        else:
            import z3
            k = S.new_atom('kwrap{%s}' % S.pstr(q.n), 'int')
            k.axioms = [z3.IsInt(k.z)]
            # exists integer k: q == k  -- prove by exhibiting floor(q): q - floor(q) == 0
            fl = S.sym_floordiv(q, 1)
            w.prove(q == fl, label)
    else:
        import math
        r = float(diff) / (2 * math.pi)
        w.prove(abs(r - round(r)) <= 1e-9, label, 'difference %r is not a multiple of 2*pi' % (float(diff),))


def h_anglemod(w):
    tm, fsr, bh, mr = _libs(w, summary=False)
    kind = w.params['kind']
    x = w.real('x', -50, 50)
    if kind == 'scalar':
        w.witness()
        r = bh.angleMod(x)
        _is_mult_2pi(w, x - r, 'angleMod(scalar) preserves the angle modulo 2*pi')
        w.prove(H.AND(r <= 2 * w.pi, r >= -2 * w.pi), 'angleMod(scalar) result within [-2pi, 2pi]')
    elif kind == 'array':
        y = w.real('y', -50, 50)
        arr = w.array([x, y, x + y])
        w.witness()
        r = bh.angleMod(arr.copy())
        for i, v in enumerate([x, y, x + y]):
            _is_mult_2pi(w, v - r[i], 'angleMod(array)[%d] preserves the angle modulo 2*pi' % i)
    elif kind == 'six':
        y = w.real('y', -50, 50)
        six = [x, y, 3, x, y, x - y]
        arr = w.array(six).reshape((6, 1)) if w.params.get('col') else w.array(six)
        w.witness()
        r = bh.angleMod(arr.copy())
        rr = r.reshape(-1)
        for i in range(3):
            w.prove_close(rr[i], six[i], 0, 'angleMod(six-vector) leaves translation %d alone' % i)
        for i in range(3, 6):
            _is_mult_2pi(w, six[i] - rr[i], 'angleMod(six-vector)[%d] preserves the angle modulo 2*pi' % i)
    elif kind == 'mr':
        y = w.real('y', -50, 50)
        arr = w.array([x, y])
        w.witness()
        r = mr.AngleMod(arr.copy())
        _is_mult_2pi(w, x - r[0], 'AngleMod[0] preserves the angle modulo 2*pi')
        _is_mult_2pi(w, y - r[1], 'AngleMod[1] preserves the angle modulo 2*pi')
    elif kind == 'tm':
        # single-axis rotation vectors: wrapping the angle must preserve the rotation (angle modulo 2*pi)
        ax = w.params['axis']
        six = [1, 2, 3, 0, 0, 0]
        six[3 + ax] = x
        t = tm(six)
        w.witness()
        t.angleMod()
        _is_mult_2pi(w, x - t[3 + ax], 'tm.angleMod preserves a single-axis angle modulo 2*pi')
        t2 = bh.angleMod(tm(six))
        _is_mult_2pi(w, x - t2[3 + ax], 'angleMod(tm) preserves a single-axis angle modulo 2*pi')


def cases(tier, seed):
    cs = [Case('mirror', h_mirror), Case('plane', h_plane), Case('midpoint', h_midpoint),
          Case('lookAt', h_lookat), Case('lookAt_above', h_lookat, params=dict(vertical=1, tol='1e-6', ztol='1e-3'), concrete_only=True, concrete_samples=10),
          Case('lookAt_below', h_lookat, params=dict(vertical=-1, tol='1e-6', ztol='1e-3'), concrete_only=True, concrete_samples=10),
          Case('distance', h_distance), Case('arcDistance', h_arcdistance),
          Case('closeLinearGap', h_gap, params=dict(kind='linear')), Case('closeArcGap', h_gap, params=dict(kind='arc')),
          Case('twistToGoal', h_twist_to_goal)]
    for steps in (range(2, 6) if tier == 'quick' else range(2, 8)):
        cs.append(Case('IKPath_%d' % steps, h_ikpath, params=dict(steps=steps)))
    # step counts 2..200 of the property: the loop body is the same per step; beyond the symbolic bound they are
    # exercised concretely only (differential sampling on the real library)
    cs.append(Case('IKPath_2_to_200', h_ikpath_many, concrete_only=True, concrete_samples=1))
    for n in (1, 2, 3):
        cs.append(Case('chainJacobian_%d' % n, h_chain_jacobian, params=dict(n=n)))
    for n in (range(1, 9) if tier == 'quick' else range(1, 17)):
        cs.append(Case('spheres_%d' % n, h_spheres, params=dict(n=n)))
    for kind in ('scalar', 'array', 'mr'):
        cs.append(Case('angleMod_' + kind, h_anglemod, params=dict(kind=kind)))
    cs.append(Case('angleMod_six', h_anglemod, params=dict(kind='six')))
    cs.append(Case('angleMod_six_col', h_anglemod, params=dict(kind='six', col=True)))
    for ax in range(3):
        cs.append(Case('angleMod_tm_axis%d' % ax, h_anglemod, params=dict(kind='tm', axis=ax)))
    return cs
