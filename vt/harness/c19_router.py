"""C19 - message router delivers each received message exactly once per active rule (DESIGN 5, C19).
Engine B: CrossHair 0.0.110 drives the REAL Comms class (loaded from /repo's working tree) with in-memory
CommsObject doubles against a reference model of the rule tables (vt/xh/router_model.py)."""
import os
import re
import shutil
import subprocess
import sys
import tempfile
import time

from ..run import Case, ROOT

PROPERTY = 'C19'
LEVEL = 'model_checking'
ENCODED = ['interfaces.comms_core.Comms: setForwardData, deleteForwardingRule, setDataSink, setDataSource, getData, '
           'sendData, spin/_single_spin, getCom, openCom, closeCom', 'interfaces.comms_object.CommsObject (base of the doubles)']
BOUNDS = {
    'quick': 'hub with 2 registered endpoints + 1 unknown name, 2 sinks (registered as bound methods), 2 sources, 3 message values incl. the empty string; endpoints are in-memory CommsObject doubles and, for the depth-2 histories, also real UDPObject instances over a socket double; (i) ALL histories of '
             'depth 2 over the 8 operation kinds with symbolic arguments (sharded by first operation), messages or no-data '
             'at every receive; (ii) inductive step: one operation from an arbitrary rule-table state satisfying the '
             'representation invariant (bit-encoded rule tables: per operation only the tables it can read are symbolic - sizes in '
             'STEP_STATE[tier] of vt/harness/c19_router.py - the others empty) re-establishes the invariant and '
             'delivers per the model',
    'thorough': 'same plus ALL histories of depth 3 (VERIF_C19_DEPTH=4: depth 4 sharded by the first two operations)',
}
OUTSIDE = ['real UDP sockets: the real UDPObject.getData/sendData run over an in-memory socket double whose recvfrom may time out',
           'more than 2 endpoints / sinks / sources', 'history depth beyond the bound except through the inductive step']
ASSUMPTIONS = ['CrossHair\'s modelling of int/dict/list/str', 'endpoints are in-memory doubles of the CommsObject interface',
               'only "Confirmed over all paths" counts as proved; "Not confirmed"/"Unable to meet precondition" are inconclusive']

VENV_PY = os.path.join(ROOT, '.venv', 'bin', 'python')


class XHCase:
    """callable used as Case.fn: runs one CrossHair condition"""

    def __init__(self, name, params, pre, call, want='True', timeout=600, kind='hist'):
        self.name = name
        self.spec = (params, pre, call, want)
        self.timeout = timeout
        self.kind = kind

    def __call__(self, tier, seed, case):
        from ..xh import gen_contracts as G
        t0 = time.time()
        d = tempfile.mkdtemp(prefix='vt_c19_')
        try:
            src = G.HEADER + G.emit(self.name, *self.spec)
            path = os.path.join(d, 'c19_contract_%s.py' % self.name)
            open(path, 'w').write(src)
            line = src[:src.index('def ' + self.name)].count('\n') + 2
            cnt = os.path.join(d, 'count')
            env = dict(os.environ, PYTHONPATH=ROOT + os.pathsep + d, VT_XH_COUNT_FILE=cnt)
            cmd = [VENV_PY, '-m', 'crosshair', 'check', '--report_all', '--unblock=open:' + cnt, '--per_condition_timeout', str(self.timeout),
                   '%s:%d' % (path, line)]
            try:
                p = subprocess.run(cmd, capture_output=True, text=True, env=env, timeout=self.timeout + 120, cwd=d)
                out = p.stdout + p.stderr
            except subprocess.TimeoutExpired as e:
                out = 'TIMEOUT ' + str(e)
            paths = 0
            if os.path.exists(cnt):
                paths = sum(int(x) for x in open(cnt).read().split() if x.strip())
        finally:
            shutil.rmtree(d, ignore_errors=True)
        status, model, detail = 'unknown', None, None
        m = re.search(r'error: (.*) when calling (\w+)\((.*?)\)', out)
        if 'Confirmed over all paths' in out:
            status = 'proved'
        elif m:
            status = 'violated'
            model = dict(call=m.group(2), args=m.group(3))
            detail = m.group(1)
        else:
            detail = (out.strip().splitlines() or ['no output'])[-1][:300]
        want_refuted = self.spec[3] == 'False'
        if want_refuted:
            # reachability twin: a counterexample is the expected outcome
            ob = dict(label='reachable:' + self.name, how='witness',
                      status='proved' if status == 'violated' else ('violated' if status == 'proved' else 'unknown'),
                      secs=time.time() - t0, prefix=[])
        else:
            ob = dict(label=self.name, how='solver', status=status, secs=time.time() - t0, prefix=[],
                      model=model, detail=detail)
        sample = dict(case=self.name, contract=G.emit(self.name, *self.spec), verdict=(detail or status), paths=paths)
        return dict(name=case.name, paths=max(paths, 1), complete=True, outcomes={'ok': 1}, decisions=paths,
                    obligations=[ob], stats=dict(queries=paths, solver_s=round(time.time() - t0, 2)),
                    hashes=_hashes(), stubs={'CommsObject in-memory double': 1}, errors=[], n_errors=0,
                    samples=[sample] if not want_refuted else [], error=None)

    def replay(self, req):
        """re-run the counterexample concretely against the real Comms class"""
        from ..xh import router_model as R
        args = [int(x) for x in re.findall(r'-?\d+', req['values']['args'])]
        params, pre, call, want = self.spec
        names = [p.split(':')[0] for p in params]
        envd = dict(zip(names, args))
        envd['R'] = R
        r = eval(call, envd)
        if r is None:
            return dict(status='passed', failures=[])
        return dict(status='reproduced', failures=[dict(label=self.name, detail=str(r))])


def _hashes():
    import hashlib
    out = {}
    for f in ('comms_core.py', 'comms_object.py', 'udp_bridge.py'):
        p = os.path.join(os.environ.get('VERIF_REPO', '/repo'), 'basic_robotics', 'interfaces', f)
        out['basic_robotics/interfaces/' + f] = hashlib.sha256(open(p, 'rb').read()).hexdigest()
    return out


# which rule tables each operation can read (others are left empty in the inductive-step shards), and how many
# bits of each are symbolic per tier
STEP_STATE = {
    'thorough': {
        0: dict(fw=6, sk=0, sr=0, pend=0),   # setForwardData
        1: dict(fw=6, sk=0, sr=0, pend=0),   # deleteForwardingRule
        2: dict(fw=0, sk=4, sr=0, pend=0),   # setDataSink
        3: dict(fw=0, sk=0, sr=4, pend=0),   # setDataSource
        4: dict(fw=4, sk=4, sr=0, pend=3),   # message arrives, getData
        5: dict(fw=4, sk=4, sr=0, pend=3),   # getData, possibly nothing pending
        6: dict(fw=4, sk=2, sr=4, pend=2),   # spin
        7: dict(fw=2, sk=2, sr=0, pend=3),   # open/close/sendData
    },
    'quick': {
        0: dict(fw=6, sk=0, sr=0, pend=0),
        1: dict(fw=6, sk=0, sr=0, pend=0),
        2: dict(fw=0, sk=4, sr=0, pend=0),
        3: dict(fw=0, sk=0, sr=4, pend=0),
        4: dict(fw=4, sk=2, sr=0, pend=2),
        5: dict(fw=4, sk=2, sr=0, pend=2),
        6: dict(fw=2, sk=2, sr=2, pend=2),
        7: dict(fw=2, sk=2, sr=0, pend=2),
    },
}


def cases(tier, seed):
    from ..xh import gen_contracts as G
    cs = []
    to = 900 if tier == 'quick' else 1200      # CPU seconds per shard; depth-3 shards that need more are reported as not confirmed

    def add(name, spec, want='True', kind='hist'):
        x = XHCase(name, spec[0], spec[1], spec[2], want=want, timeout=to, kind=kind)
        cs.append(Case(name, x, engine='crosshair'))
    for op0 in range(8):
        add('hist_d2_op%d' % op0, G.hist_spec(2, [op0]))
    add('twin_d2_op0', G.hist_spec(2, [0]), want='False')
    for op0 in range(8):
        add('udp_hist_d2_op%d' % op0, G.hist_spec(2, [op0], 'udp'))
    for op in range(8):
        st = STEP_STATE[tier][op]
        heavy = op in (4, 5, 6)
        if heavy:
            for a in range(3):
                for b in range(3):
                    add('step_op%d_a%d_b%d' % (op, a, b), G.step_spec(op, a, b, st['fw'], st['sk'], st['sr'], st['pend']), kind='step')
        else:
            for a in range(3):
                add('step_op%d_a%d' % (op, a), _step_all_b(G, op, a, st), kind='step')
    add('twin_step_op4', G.step_spec(4, 0, 0, 4, 4, 0, 3), want='False', kind='step')
    if tier == 'thorough':
        depth = int(os.environ.get('VERIF_C19_DEPTH', '3'))
        for op0 in range(8):
            if depth >= 4:
                for op1 in range(8):
                    add('hist_d4_op%d_%d' % (op0, op1), G.hist_spec(4, [op0, op1]))
            add('hist_d3_op%d' % op0, G.hist_spec(3, [op0]))
    return cs


def _step_all_b(G, op, a, st):
    params, pre, call = G.step_spec(op, a, 0, st['fw'], st['sk'], st['sr'], st['pend'])
    params = params + ['b: int']
    pre = [p for p in pre if p != 'True'] + ['0 <= b < 3']
    call = call.rsplit(',', 1)[0] + ', b)'
    return params, pre, call
