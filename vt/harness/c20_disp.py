"""C20 - disp never fails and shows every element it was given (DESIGN 5, C20)."""
import itertools
import math
import re
from ..run import Case

PROPERTY = 'C20'
LEVEL = 'model_checking'
ENCODED = ['utilities.disp.disp', 'utilities.disp.dispa', 'utilities.disp.disptex', 'utilities.disp.printTFlist']
BOUNDS = {
    'quick': 'array SHAPES are enumerated (ndim 1-3: every extent 0..3; ndim 4: 0..2; ndim 5: a spread incl. zero extents), '
             'element VALUES are symbolic reals (float dtype), symbolic integers (int dtype) or a fixed pattern (bool dtype); '
             'faithfulness for |x| <= 9998 (no branch on magnitude is feasible), totality additionally with unbounded symbolic '
             'elements (every digit-count branch up to 16 digits) and the concrete specials nan, +inf, -inf, 1e300; decimals '
             '0, 3, 8; titles of even and odd length; table mode for everything, LaTeX mode for 2-D; scalars, str, None, nested '
             'lists/tuples, transform, wrench, lists of transforms / wrenches',
    'thorough': 'as quick with every extent 0..4 for ndim <= 3, 0..3 for ndim 4, 0..2 for ndim 5, and decimals 0..8',
}
OUTSIDE = ['CPython\'s float formatting (turning (x, width, precision) into digits) is trusted, elements are rendered as tokens '
           '(value id, width.precision)', 'integers with more than 16 digits as symbolic values (1e300 is covered concretely)']
ASSUMPTIONS = ['numpy scalar __format__/__abs__/__round__ behave like Python floats/ints for the element types used']
EXPLORER_DEFAULTS = {'quick': dict(prove_timeout_ms=20000, time_budget_s=600, max_paths=600, max_decisions=200),
                     'thorough': dict(prove_timeout_ms=60000, time_budget_s=1200, max_paths=4000, max_decisions=400)}

NUM = re.compile(r'[-+]?(?:\d+\.\d*|\.\d+|\d+|nan|inf)(?:[eE][-+]?\d+)?')


def _call_disp(w, obj, **kw):
    """returns (result, printed_text_or_None)"""
    if w.symbolic:
        from .. import symfmt, loader
        symfmt.install()
        D = w.lib('utilities.disp')
        n0 = len(loader.PRINTED)
        del loader.PRINTED[:]
        r = D.disp(obj, **kw)
        printed = loader.PRINTED[-1] if loader.PRINTED else None
        return r, printed
    import io
    import contextlib
    D = w.lib('utilities.disp')
    buf = io.StringIO()
    with contextlib.redirect_stdout(buf):
        r = D.disp(obj, **kw)
    out = buf.getvalue()
    return r, (out[:-1] if out.endswith('\n') else (out if out else None))


def _elements(w, prefix, n, dtype, bounded=True):
    if dtype == 'bool':
        return [bool((i * 7 + 3) % 3 == 0) for i in range(n)]
    lo, hi = (-9998, 9998) if bounded else (-10 ** 15, 10 ** 15)
    xs = w.reals(prefix, n, lo, hi)
    if dtype == 'int':
        if w.symbolic:
            import z3
            for x in xs:
                a = w.S.ATOMS[next(iter(x.atoms()))]
                w.ctx.assumes.append(z3.IsInt(a.z))
        else:
            xs = [int(round(x)) for x in xs]
    return xs


def _mk_array(w, xs, shape, dtype):
    if w.symbolic:
        a = w.np.array(list(xs)).reshape(shape) if len(xs) else w.np.zeros(shape)
        return a
    import numpy as np
    return np.array(list(xs), dtype={'float': float, 'int': np.int64, 'bool': bool}[dtype]).reshape(shape)


def _check_common(w, r, printed, label, noprint=False):
    w.prove(isinstance(r, str), label + ': returns a string')
    if noprint:
        w.prove(printed is None, label + ': prints nothing when asked not to')
    else:
        w.prove(printed == r, label + ': prints exactly the returned string')


def _check_faithful(w, r, xs, nd, label, latex=False):
    """every element, row-major order, rounded to nd decimals"""
    if w.symbolic:
        from .. import symfmt
        toks = symfmt.TOKEN.findall(r)
        exp = [(symfmt.sym_key(x), ('round%d' % nd) if latex else '%d.%df' % (nd + 6, nd)) for x in xs]
        w.prove(toks == exp, label + ': every element once, in row-major order, with %d decimals' % nd,
                detail='rendered %r expected %r' % (toks[:8], exp[:8]))
        return
    body = r
    if latex:
        body = r.split('\\midrule\n', 1)[1].split('\\bottomrule', 1)[0]
    else:
        # drop title bars / dimension captions: only rows start with a box-drawing bracket followed by a space
        rows = []
        rowre = re.compile(r'^(?:.*: )?[║╔╚] (.*) [║╗╝]$')
        fields = re.compile(r'^\s*(?:[-+]?(?:\d+\.?\d*|nan|inf)\s*(?:,\s*|$))*$')
        for ln in r.split('\n'):
            m = rowre.match(ln)
            if m and fields.match(m.group(1)):
                rows.append(m.group(1))
        body = '\n'.join(rows)
    got = [float(t) for t in NUM.findall(body)]
    ok = len(got) == len(xs)
    detail = 'parsed %d numbers, expected %d' % (len(got), len(xs))
    if ok:
        for g, x in zip(got, xs):
            if abs(g - round(float(x), nd)) > 0.5 * 10 ** (-nd) * (1 + 1e-9) + 1e-12 * abs(float(x)):
                ok = False
                detail = 'rendered %r for element %r (nd=%d)' % (g, x, nd)
                break
    w.prove(ok, label + ': every element once, in row-major order, with %d decimals' % nd, detail=detail)


def h_arrays(w):
    """a chunk of shapes; element values symbolic"""
    for k, spec in enumerate(w.params['specs']):
        shape, dtype, nd, title, mode = spec['shape'], spec['dtype'], spec['nd'], spec['title'], spec['mode']
        n = 1
        for e in shape:
            n *= e
        xs = _elements(w, 's%d_x' % k, n, dtype)
        A = _mk_array(w, xs, shape, dtype)
        label = 'shape %s %s nd=%d mode=%d' % (shape, dtype, nd, mode)
        r, printed = _call_disp(w, A, title=title, nd=nd, mode=mode)
        _check_common(w, r, printed, label)
        if len(shape) <= 4 and dtype != 'bool' and (mode == 0 or len(shape) == 2):
            _check_faithful(w, r, xs, nd, label, latex=(mode == 1))
        if dtype == 'bool' and not w.symbolic:
            pass
        r2, printed2 = _call_disp(w, A, title=title, nd=nd, mode=mode, noprint=True)
        _check_common(w, r2, printed2, label + ' noprint', noprint=True)
        w.prove(r2 == r, label + ': noprint returns the same string')
    w.witness()


def h_totality(w):
    """unbounded symbolic elements next to the concrete specials; no claim on content"""
    specials = [float('nan'), float('inf'), float('-inf'), 1e300, -123456789.125, 9999.0, -9999.5]
    shape = tuple(w.params['shape'])
    n = 1
    for e in shape:
        n *= e
    nfree = w.params.get('nfree', 1)
    xs = _elements(w, 'u', nfree, 'float', bounded=False)
    vals = list(xs)
    i = 0
    while len(vals) < n:
        vals.append(specials[(i + w.params.get('rot', 0)) % len(specials)])
        i += 1
    vals = vals[:n]
    if w.symbolic:
        A = w.np.array(vals).reshape(shape)
    else:
        import numpy as np
        A = np.array([float(v) for v in vals]).reshape(shape)
    nd = w.params.get('nd', 3)
    r, printed = _call_disp(w, A, title=w.params.get('title', 'T'), nd=nd)
    _check_common(w, r, printed, 'specials %s' % (shape,))
    w.witness()


def h_objects(w):
    """scalars, strings, None, nested containers, transforms, wrenches and lists of them"""
    g = w.lib('general')
    tm, Wrench = g.tm, g.Wrench
    xs = w.reals('x', 12, -9998, 9998)
    nd = w.params.get('nd', 3)
    if w.symbolic:
        arr = w.np.array(xs[:4]).reshape((2, 2))
    else:
        import numpy as np
        arr = np.array(xs[:4]).reshape((2, 2))
    t1 = tm([xs[0], xs[1], xs[2], 0, 0, 0])
    t2 = tm([xs[3], xs[4], xs[5], 0, 0, 0])
    w1 = Wrench(w.array(xs[6:12]).reshape((6, 1)))
    w2 = Wrench(w.array(xs[0:6]).reshape((6, 1)))
    objs = [('scalar', xs[0]), ('int', 5), ('str', 'hello'), ('none', None), ('tuple', (xs[0], 2)),
            ('nested', [[xs[0], xs[1]], [xs[2], [xs[3], 4]]]), ('list with array', [arr, [1, 2]]),
            ('empty list', []), ('empty tuple', ()), ('transform', t1), ('wrench', w1),
            ('transform list', [t1, t2]), ('wrench list', [w1, w2]), ('single transform list', [t1]),
            ('list of tuples', [(1, 2), (3, 4)]), ('bool', True), ('list of str', ['a', 'b'])]
    for name, o in objs:
        for title in ('MATRIX', 'ODD', 'EVEN'):
            r, printed = _call_disp(w, o, title=title, nd=nd)
            _check_common(w, r, printed, '%s title=%s' % (name, title))
    # transform / wrench lists show all 6 x k entries
    r, _ = _call_disp(w, [t1, t2], title='TL', nd=nd)
    if w.symbolic:
        from .. import symfmt
        toks = [k for k, s_ in symfmt.TOKEN.findall(r)]
        exp = []
        for j in range(6):
            for t in (t1, t2):
                v = t.TAA[j, 0]
                if isinstance(v, w.S.Sym) and v.const_value() is None:
                    exp.append(symfmt.sym_key(v))
        w.prove(toks == exp, 'transform list shows every symbolic entry once, row by row')
    w.witness()


def _shapes(tier):
    out = []
    if tier == 'quick':
        for nd_ in (1, 2, 3):
            out += list(itertools.product(range(4), repeat=nd_))
        out += list(itertools.product(range(3), repeat=4))
        out += [(1, 1, 1, 1, 1), (2, 1, 2, 1, 2), (1, 2, 0, 2, 1), (2, 2, 2, 2, 2), (0, 1, 1, 1, 1), (1, 1, 1, 1, 0),
                (4,), (4, 4), (1, 4), (4, 1), (2, 4, 3), (4, 0), (0, 4)]
    else:
        for nd_ in (1, 2, 3):
            out += list(itertools.product(range(5), repeat=nd_))
        out += list(itertools.product(range(4), repeat=4))
        out += list(itertools.product(range(3), repeat=5))
    return out


def cases(tier, seed):
    shapes = _shapes(tier)
    nds = [0, 3, 8] if tier == 'quick' else list(range(9))
    titles = ['MATRIX', 'ODD', 'EVEN', 'Long title x']
    dtypes = ['float', 'int', 'float', 'bool', 'float']
    specs = []
    for i, sh in enumerate(shapes):
        mode = 1 if (len(sh) == 2 and i % 2 == 0) else 0
        specs.append(dict(shape=tuple(sh), dtype=dtypes[(i + seed) % len(dtypes)] if mode == 0 else 'float',
                          nd=nds[(i * 7 + seed) % len(nds)], title=titles[(i * 3 + seed) % len(titles)], mode=mode))
        if len(sh) == 2:
            specs.append(dict(shape=tuple(sh), dtype='float', nd=nds[(i + 1) % len(nds)], title=titles[i % 4], mode=1 - mode))
    # weigh chunks by number of elements
    chunks, cur, wt = [], [], 0
    for sp in specs:
        n = 1
        for e in sp['shape']:
            n *= e
        cur.append(sp)
        wt += n + 2
        if wt > 220:
            chunks.append(cur)
            cur, wt = [], 0
    if cur:
        chunks.append(cur)
    cs = [Case('arrays_%02d' % i, h_arrays, params=dict(specs=c)) for i, c in enumerate(chunks)]
    tot_shapes = [(3,), (2, 2), (2, 3), (1, 2, 2), (2, 1, 2, 1), (1, 1, 2, 1, 2), (7,), (4, 2)]
    for i, sh in enumerate(tot_shapes):
        cs.append(Case('totality_%d' % i, h_totality, params=dict(shape=sh, nfree=1 + (i % 2), rot=i, nd=[3, 0, 8][i % 3],
                                                                 title=['T', 'TT'][i % 2])))
    cs.append(Case('objects', h_objects, params=dict(nd=3)))
    cs.append(Case('objects_nd0', h_objects, params=dict(nd=0)))
    return cs
