"""Oracle helpers written from the mathematics; they run unchanged in SymWorld and ConcreteWorld."""
from fractions import Fraction


def hat(w, v):
    return w.array([[0, -v[2], v[1]], [v[2], 0, -v[0]], [-v[1], v[0], 0]])


def eye(w, n):
    return w.array([[1 if i == j else 0 for j in range(n)] for i in range(n)])


def rodrigues(w, u, th):
    """exp([u] th) for a unit axis u"""
    K = hat(w, u)
    return eye(w, 3) + w.sin(th) * K + (1 - w.cos(th)) * (K @ K)


def quat_R(w, q):
    """rotation matrix of a unit quaternion (x, y, z, w)"""
    x, y, z, s = q
    return w.array([
        [1 - 2 * (y * y + z * z), 2 * (x * y - z * s), 2 * (x * z + y * s)],
        [2 * (x * y + z * s), 1 - 2 * (x * x + z * z), 2 * (y * z - x * s)],
        [2 * (x * z - y * s), 2 * (y * z + x * s), 1 - 2 * (x * x + y * y)]])


def T_of(w, R, p):
    return w.array([[R[0][0], R[0][1], R[0][2], p[0]],
                    [R[1][0], R[1][1], R[1][2], p[1]],
                    [R[2][0], R[2][1], R[2][2], p[2]],
                    [0, 0, 0, 1]])


def T_inv(w, T):
    R = [[T[j][i] for j in range(3)] for i in range(3)]
    p = [T[i][3] for i in range(3)]
    q = [-(R[i][0] * p[0] + R[i][1] * p[1] + R[i][2] * p[2]) for i in range(3)]
    return T_of(w, R, q)


def Ad_of(w, T):
    R = [[T[i][j] for j in range(3)] for i in range(3)]
    p = [T[i][3] for i in range(3)]
    pR = hat(w, p) @ w.array(R)
    out = [[0] * 6 for _ in range(6)]
    for i in range(3):
        for j in range(3):
            out[i][j] = R[i][j]
            out[i + 3][j + 3] = R[i][j]
            out[i + 3][j] = pR[i][j]
    return w.array(out)


def se3_hat(w, V):
    return w.array([[0, -V[2], V[1], V[3]], [V[2], 0, -V[0], V[4]], [-V[1], V[0], 0, V[5]], [0, 0, 0, 0]])


def det3(A):
    return (A[0][0] * (A[1][1] * A[2][2] - A[1][2] * A[2][1])
            - A[0][1] * (A[1][0] * A[2][2] - A[1][2] * A[2][0])
            + A[0][2] * (A[1][0] * A[2][1] - A[1][1] * A[2][0]))


def exp6_oracle(w, u, th, v):
    """exp of the twist (u*th, v*th) with unit u: [R, G(th) v]"""
    K = hat(w, u)
    R = rodrigues(w, u, th)
    G = eye(w, 3) * th + (1 - w.cos(th)) * K + (th - w.sin(th)) * (K @ K)
    p = G @ w.array(v)
    return T_of(w, R, p)


def cross(a, b):
    return [a[1] * b[2] - a[2] * b[1], a[2] * b[0] - a[0] * b[2], a[0] * b[1] - a[1] * b[0]]


def dot(a, b):
    return sum((x * y for x, y in zip(a, b)), 0)


def pose(w, name, plim=1000):
    """arbitrary element of SE(3): unit quaternion + bounded translation -> (T 4x4, R, p, q)"""
    q = w.unit_quat(name + 'q')
    p = w.reals(name + 'p', 3, -plim, plim)
    R = quat_R(w, q)
    return T_of(w, R, p), R, p, q


# ---------------------------------------------------------------------------------------------
# boolean helpers that work on Python bools and on symbolic booleans alike (no path forking)
# ---------------------------------------------------------------------------------------------

def AND(*xs):
    r = True
    for x in xs:
        if isinstance(x, bool) or hasattr(x, 'dtype'):
            if not x:
                return False
        else:
            r = x if r is True else (r & x)
    return r


def OR(*xs):
    r = False
    for x in xs:
        if isinstance(x, bool) or hasattr(x, 'dtype'):
            if x:
                return True
        else:
            r = x if r is False else (r | x)
    return r


def NOT(x):
    if isinstance(x, bool) or hasattr(x, 'dtype'):
        return not x
    return ~x


def IMPLIES(a, b):
    return OR(NOT(a), b)


def halfturn(w, name='n'):
    """R = 2 n n^T - I: every rotation by exactly pi.  Concrete worlds: when replaying a solver model (and for half of
    the random samples) the float matrix is snapped to a 2^-40 grid and its last diagonal entry chosen so that the
    trace is EXACTLY -1, otherwise float rounding of 2nn^T - I lands the trace a hair above -1 and the library never
    enters its half-turn branch (that float behaviour is known finding F06 and is what the unsnapped samples show)."""
    n = w.unit3(name)
    R = w.array([[2 * n[i] * n[j] - (1 if i == j else 0) for j in range(3)] for i in range(3)])
    if not w.symbolic:
        import numpy as np
        if w.rng is None or w.rng.random() < 0.5:
            g = 2.0 ** 40
            R = np.round(np.array(R, dtype=float) * g) / g
            R = (R + R.T) / 2
            R[2, 2] = -1.0 - R[0, 0] - R[1, 1]
    return R, n
