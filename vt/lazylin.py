"""Linear solves without inverting: pinv(M) of a square symbolic matrix is kept as a lazy factor; applying it to a vector
introduces a fresh vector x with the defining equations M x = v (the claim assumes M non-singular - the properties that use
this quantify over non-singular configurations).  Rigid-motion adjoints (block triangular with orthonormal diagonal blocks) are
inverted explicitly.  Part of the claim: listed in the evidence as a stub."""
from . import sym as S
from . import symnp
from .sym import Sym

COUNT = [0]
MEMO = {}
EQUATIONS = []      # Sym expressions that are identically zero by definition of the fresh vectors
LIN_ATOMS = set()
SOLVED = {}         # (matrix key, ids of the fresh atoms) -> right-hand side: A @ solve(A, v) = v


def reset():
    COUNT[0] = 0
    MEMO.clear()
    del EQUATIONS[:]
    LIN_ATOMS.clear()
    SOLVED.clear()


def _mkey(A):
    A = symnp.asarray(A)
    return (A.shape, tuple(S.pkey(Sym.lift(x).n) for x in A.reshape(-1)), tuple(repr(Sym.lift(x).f) for x in A.reshape(-1)))


def _single_atom(x):
    x = Sym.lift(x)
    if x.f or len(x.n) != 1:
        return None
    (m, c), = x.n.items()
    if c != 1 or len(m) != 1 or m[0][1] != 1:
        return None
    return m[0][0]


def _is_zero_block(B):
    return all(Sym.lift(x).is_zero() for x in B.reshape(-1))


def _orthonormal(R):
    P = symnp.dot(R, R.T)
    for i in range(3):
        for j in range(3):
            if not (Sym.lift(P[i, j]) - (1 if i == j else 0)).is_zero():
                return False
    return True


def explicit_inverse(A):
    """inverse of [[R,0],[C,R]] or [[R,C],[0,R]] with R orthonormal (adjoint of a rigid motion or its transpose), else None"""
    A = symnp.asarray(A)
    if A.shape != (6, 6):
        return None
    R1, R2 = A[0:3, 0:3], A[3:6, 3:6]
    if not all((Sym.lift(a) - Sym.lift(b)).is_zero() for a, b in zip(R1.reshape(-1), R2.reshape(-1))):
        return None
    lower, upper = A[3:6, 0:3], A[0:3, 3:6]
    if _is_zero_block(upper):
        C, low = lower, True
    elif _is_zero_block(lower):
        C, low = upper, False
    else:
        return None
    try:
        if not _orthonormal(R1):
            return None
    except Exception:
        return None
    Rt = R1.T
    X = -symnp.dot(symnp.dot(Rt, C), Rt)
    out = symnp.zeros((6, 6))
    out[0:3, 0:3] = Rt
    out[3:6, 3:6] = Rt
    if low:
        out[3:6, 0:3] = X
    else:
        out[0:3, 3:6] = X
    return out


def solve_fresh(A, v):
    """fresh x with A x = v"""
    A = symnp.asarray(A)
    vv = symnp.asarray(v)
    shape = vv.shape
    flat = [Sym.lift(x) for x in vv.reshape(-1)]
    n = A.shape[0]
    key = (tuple(S.pkey(Sym.lift(x).n) for x in A.reshape(-1)), tuple(repr(Sym.lift(x).f) for x in A.reshape(-1)),
           tuple(S.pkey(x.n) for x in flat), tuple(repr(x.f) for x in flat))
    hit = MEMO.get(key)
    if hit is not None:
        return symnp.array(hit).reshape(shape)
    k = COUNT[0]
    COUNT[0] += 1
    ats = [S.new_atom('lin%d_%d' % (k, i), 'var') for i in range(n)]
    xs = [Sym.atom(a) for a in ats]
    ax = []
    deps = set(a.id for a in ats)
    for i in range(n):
        row = 0
        for j in range(n):
            aij = Sym.lift(A[i, j])
            if aij.is_zero():
                continue
            row = row + aij * xs[j]
            deps |= aij.atoms()
        deps |= flat[i].atoms()
        ax.append(Sym.lift(row).z() == flat[i].z())
        EQUATIONS.append(Sym.lift(row) - flat[i])
    LIN_ATOMS.update(a.id for a in ats)
    SOLVED[(_mkey(A), tuple(a.id for a in ats))] = [x for x in flat]
    for a in ats:
        a.axioms = ax
        a.deps = tuple(deps - {a.id})
    symnp.StubLog.note('linear solve as fresh vector with defining equations (%dx%d, non-singular assumed)' % (n, n))
    MEMO[key] = xs
    return symnp.array(xs).reshape(shape)


class LazyMat:
    """product of factors ('mat', A) | ('inv', A)"""
    __array_ufunc__ = None
    ndim = 2

    def __init__(self, factors):
        self.factors = list(factors)
        self.shape = (6, 6) if not factors else (symnp.asarray(factors[0][1]).shape[0],) * 2

    @property
    def T(self):
        return LazyMat([(k, symnp.asarray(A).T.copy()) for k, A in reversed(self.factors)])

    def transpose(self):
        return self.T

    def copy(self):
        return LazyMat(self.factors)

    def pinv(self):
        return LazyMat([('inv' if k == 'mat' else 'mat', A) for k, A in reversed(self.factors)])

    def apply(self, v):
        for k, A in reversed(self.factors):
            if k == 'mat':
                va = symnp.asarray(v)
                ids = tuple(_single_atom(x) for x in va.reshape(-1))
                hit = SOLVED.get((_mkey(A), ids)) if None not in ids else None
                if hit is not None:                  # A @ solve(A, v) = v
                    v = symnp.array(hit).reshape(va.shape)
                else:
                    v = symnp.dot(A, va)
            else:
                E = explicit_inverse(A)
                v = symnp.dot(E, symnp.asarray(v)) if E is not None else solve_fresh(A, v)
        return v

    def __matmul__(self, o):
        if isinstance(o, LazyMat):
            return LazyMat(self.factors + o.factors)
        if hasattr(o, 'data') and not isinstance(o, symnp._np.ndarray):
            return self.apply(o.data)
        o = symnp.asarray(o)
        if o.ndim == 2 and o.shape[0] == o.shape[1] and o.shape[0] > 1:
            return LazyMat(self.factors + [('mat', o)])
        return self.apply(o)

    def __rmatmul__(self, o):
        o = symnp.asarray(o)
        if o.ndim == 2 and o.shape[0] == o.shape[1]:
            return LazyMat([('mat', o)] + self.factors)
        raise S.SymbolicLeak('row vector times a lazy inverse is not modelled')

    def dense(self):
        """explicit matrix when no fresh solve is needed"""
        cols = [self.apply(symnp.array([1 if i == j else 0 for i in range(self.shape[0])])) for j in range(self.shape[0])]
        return symnp.array(cols).T


def install():
    reset()

    def pinv(a):
        if isinstance(a, LazyMat):
            return a.pinv()
        a = symnp.asarray(a)
        if a.ndim != 2 or a.shape[0] != a.shape[1]:
            raise S.SymbolicLeak('pinv of a non-square matrix is not modelled')
        return LazyMat([('inv', a)])
    symnp.PINV_HOOK[0] = pinv


def uninstall():
    symnp.PINV_HOOK[0] = None
