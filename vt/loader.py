"""Load the repository's modules from /repo's working tree into a private package tree with the
numeric environment replaced (numpy -> symnp proxy, numba.jit -> identity, scipy/rtree/random ->
stubs).  The code that runs is compiled from the current files on every run; the only source
transformation is that float literals become exact rationals (the exact value of the double)."""
import ast
import builtins
import hashlib
import importlib
import importlib.abc
import importlib.util
import os
import sys
import types
from fractions import Fraction

from . import sym as S
from . import symnp

REPO = os.environ.get('VERIF_REPO', '/repo')
PKG = 'symbr'
FILE_HASHES = {}


class _FloatToFraction(ast.NodeTransformer):
    def visit_Constant(self, node):
        if isinstance(node.value, float):
            v = node.value
            if v != v or v in (float('inf'), float('-inf')):
                return node
            if v == int(v) and abs(v) < 1e15:
                # 1.0 -> exact integer-valued Fraction (keeps "true division" semantics: Fraction/int)
                return ast.copy_location(
                    ast.Call(func=ast.Name(id='__vt_frac__', ctx=ast.Load()),
                             args=[ast.Constant(value=int(v))], keywords=[]), node)
            fr = Fraction(v)
            # prefer the short decimal the programmer wrote (1e-6 means 1/1000000): the difference to
            # the double is < 1 ulp and is inside the "reals, not floats" abstraction
            dec = Fraction(repr(v))
            return ast.copy_location(
                ast.Call(func=ast.Name(id='__vt_frac__', ctx=ast.Load()),
                         args=[ast.Constant(value=str(dec))], keywords=[]), node)
        return node


def _vt_frac(x):
    return Fraction(x)


class _Dummy:
    """permissive stand-in for plotting / camera / etc."""
    def __init__(self, *a, **k):
        pass

    def __call__(self, *a, **k):
        return _Dummy()

    def __getattr__(self, name):
        if name.startswith('__'):
            raise AttributeError(name)
        return _Dummy()

    def __iter__(self):
        return iter(())

    def __bool__(self):
        return False


def _dummy_module(name):
    m = types.ModuleType(name)
    def _ga(attr):
        if attr.startswith('__'):
            raise AttributeError(attr)
        # names that look like classes stay classes (so that `class X(Base)` / isinstance keep working); the rest are
        # permissive instances (so that `plt.plot(...)`, `mod.sub.func(...)` are no-ops)
        return _Dummy if attr[:1].isupper() else _Dummy()
    m.__getattr__ = _ga
    return m


def _fake_numba():
    m = types.ModuleType('numba')

    def jit(*a, **k):
        if len(a) == 1 and callable(a[0]) and not k and not isinstance(a[0], str):
            return a[0]
        return lambda f: f
    m.jit = jit
    m.njit = jit
    m.prange = range
    m.float64 = float
    m.int64 = int
    m.__vt_fake__ = True
    return m


class SymMath(types.ModuleType):
    """math module working on Sym"""
    def __init__(self):
        super().__init__('math')
        import math as _m
        self._m = _m
        self.pi = None
        self.inf = _m.inf
        self.e = _m.e
        self.nan = _m.nan

    def __getattr__(self, name):
        if name == 'pi':
            return S.sym_pi()
        return getattr(self._m, name)

    def sqrt(self, x): return symnp._sqrt1(x)
    def sin(self, x): return symnp._sin1(x)
    def cos(self, x): return symnp._cos1(x)
    def tan(self, x): return symnp._tan1(x)
    def acos(self, x): return symnp._acos1(x)

    def fabs(self, x): return S.sym_abs(x)

    def floor(self, x):
        if isinstance(x, Sym_):
            return S.sym_floordiv(x, 1)
        return self._m.floor(x)

    def ceil(self, x):
        if isinstance(x, Sym_):
            return -S.sym_floordiv(-x, 1)
        return self._m.ceil(x)

    def isnan(self, x):
        return isinstance(x, float) and x != x

    def isinf(self, x):
        return isinstance(x, float) and x in (self._m.inf, -self._m.inf)

    def isfinite(self, x):
        return not (self.isnan(x) or self.isinf(x))

    def radians(self, x): return x * S.sym_pi() / 180
    def degrees(self, x): return x * 180 / S.sym_pi()


Sym_ = S.Sym


class Env:
    """one loaded private copy of the repository"""

    def __init__(self, repo=None, extra_stubs=None, float_literals_exact=True):
        self.repo = repo or REPO
        self.np = symnp.build()
        self.numba = _fake_numba()
        self.math = SymMath()
        self.modules = {}
        self.stubs = dict(extra_stubs or {})
        self.float_literals_exact = float_literals_exact
        self.ast_patches = {}      # module relname -> list of AST transformers (recorded bound cuts)
        self.hashes = {}
        self._install_default_stubs()

    # ------------------------------------------------------------------------------------------
    def _install_default_stubs(self):
        from . import stubs
        st = stubs.build(self)
        for k, v in st.items():
            self.stubs.setdefault(k, v)

    def _import(self, name, globals=None, locals=None, fromlist=(), level=0):
        if level == 0:
            top = name.split('.')[0]
            if name == 'numpy' or name.startswith('numpy.'):
                if name == 'numpy':
                    return self.np
                if name == 'numpy.linalg':
                    return self.np.linalg if fromlist else self.np
                return self.np
            if top == 'numba':
                return self.numba
            if name == 'math':
                return self.math
            if name in self.stubs:
                mod = self.stubs[name]
                if fromlist:
                    return mod
                # "import a.b.c" binds a
                return self.stubs.get(top, mod)
            if top in self.stubs and not fromlist:
                return self.stubs[top]
            if top == 'basic_robotics':
                rel = name[len('basic_robotics'):].lstrip('.')
                full = PKG + ('.' + rel if rel else '')
                mod = self.load(full)
                if fromlist:
                    for f in fromlist:
                        if f != '*' and not hasattr(mod, f):
                            try:
                                self.load(full + '.' + f)
                            except ImportError:
                                pass
                    return mod
                return self.load(PKG)
            return builtins.__import__(name, globals, locals, fromlist, level)
        # relative import inside the private tree
        pkg = globals.get('__package__') or globals['__name__'].rpartition('.')[0]
        parts = pkg.split('.')
        if level > 1:
            parts = parts[:len(parts) - (level - 1)]
        base = '.'.join(parts)
        full = base + ('.' + name if name else '')
        mod = self.load(full)
        if fromlist:
            for f in fromlist:
                if f == '*':
                    continue
                if not hasattr(mod, f):
                    try:
                        sub = self.load(full + '.' + f)
                        setattr(mod, f, sub)
                    except ImportError:
                        pass
        return mod

    def _path_for(self, full):
        rel = full.split('.')[1:]
        base = os.path.join(self.repo, 'basic_robotics', *rel)
        if os.path.isdir(base):
            init = os.path.join(base, '__init__.py')
            return (init if os.path.exists(init) else None), True, base
        if os.path.exists(base + '.py'):
            return base + '.py', False, None
        return None, False, None

    def load(self, full):
        if full in self.modules:
            return self.modules[full]
        relname = '.'.join(full.split('.')[1:])
        if relname in self.stubs:
            self.modules[full] = self.stubs[relname]
            return self.stubs[relname]
        path, is_pkg, pdir = self._path_for(full)
        if path is None and not is_pkg:
            raise ImportError('no module %s in %s' % (full, self.repo))
        if '.' in full:
            self.load(full.rpartition('.')[0])
            if full in self.modules:
                return self.modules[full]
        mod = types.ModuleType(full)
        mod.__file__ = path or pdir
        if is_pkg:
            mod.__path__ = [pdir]
            mod.__package__ = full
        else:
            mod.__package__ = full.rpartition('.')[0]
        self.modules[full] = mod
        # parent packages
        if '.' in full:
            parent = self.load(full.rpartition('.')[0])
            setattr(parent, full.rpartition('.')[2], mod)
        if path is None:
            return mod
        src = open(path, 'rb').read()
        self.hashes[os.path.relpath(path, self.repo)] = hashlib.sha256(src).hexdigest()
        tree = ast.parse(src, filename=path)
        if self.float_literals_exact:
            tree = _FloatToFraction().visit(tree)
        for p in self.ast_patches.get(relname, []):
            tree = p(tree)
        tree = ast.fix_missing_locations(tree)
        code = compile(tree, path, 'exec')
        b = dict(vars(builtins))
        b['__import__'] = self._import
        b['float'] = _sym_float
        b['round'] = _sym_round
        b['print'] = _quiet_print
        b['__vt_frac__'] = _vt_frac
        b['abs'] = _sym_abs
        b['min'] = _sym_min
        b['max'] = _sym_max
        b['sum'] = _sym_sum
        b['isinstance'] = _sym_isinstance
        mod.__dict__['__builtins__'] = b
        try:
            exec(code, mod.__dict__)
        except BaseException:
            self.modules.pop(full, None)
            raise
        return mod

    def load_file(self, name, path, patches=None):
        """load an arbitrary source file (e.g. the vendored reference library) with the same environment replacement;
        patches: list of callables ast.Module -> ast.Module applied before compilation (recorded bound cuts)"""
        key = 'file:' + name
        if key in self.modules:
            return self.modules[key]
        mod = types.ModuleType(name)
        mod.__file__ = path
        mod.__package__ = ''
        src = open(path, 'rb').read()
        self.hashes[os.path.relpath(path, '/')] = hashlib.sha256(src).hexdigest()
        tree = ast.parse(src, filename=path)
        if self.float_literals_exact:
            tree = _FloatToFraction().visit(tree)
        for p in (patches or []):
            tree = p(tree)
        tree = ast.fix_missing_locations(tree)
        code = compile(tree, path, 'exec')
        b = dict(vars(builtins))
        b.update({'__import__': self._import, 'float': _sym_float, 'round': _sym_round, 'print': _quiet_print,
                  '__vt_frac__': _vt_frac, 'abs': _sym_abs, 'min': _sym_min, 'max': _sym_max, 'sum': _sym_sum,
                  'isinstance': _sym_isinstance})
        mod.__dict__['__builtins__'] = b
        self.modules[key] = mod
        exec(code, mod.__dict__)
        return mod

    def get(self, dotted):
        """env.get('general.faser_transform') -> module"""
        return self.load(PKG + '.' + dotted)


PRINTED = []


def _quiet_print(*a, **k):
    try:
        PRINTED.append(' '.join(str(x) for x in a))
        if len(PRINTED) > 200:
            del PRINTED[:100]
    except Exception:
        pass


def _sym_float(x=0.0):
    if isinstance(x, (S.Sym, Fraction)):
        return x
    if isinstance(x, str):
        h = symnp.STRING_TO_NUMBER[0]
        if h is not None:
            return h(x)
        return S.to_frac(float(x))
    try:
        import numpy as _np
        if isinstance(x, _np.ndarray) and x.dtype == object:
            if x.size != 1:
                raise TypeError('only length-1 arrays can be converted to Python scalars')
            return _sym_float(x.reshape(-1)[0])
    except ImportError:
        pass
    r = float(x)
    if r != r or r in (float('inf'), float('-inf')):
        return r
    return S.to_frac(r)


_sym_float.__name__ = 'float'


def _sym_round(x, nd=None):
    if isinstance(x, S.Sym):
        c = x.const_value()
        if c is None:
            return x.__round__(nd)
        x = Fraction(c)
    if isinstance(x, Fraction):
        return S.to_frac(round(x, nd)) if nd is not None else round(x)
    return round(x, nd) if nd is not None else round(x)


def _sym_abs(x):
    if isinstance(x, S.Sym):
        return S.sym_abs(x)
    return abs(x)


def _sym_min(*a, **k):
    if len(a) == 1:
        a = list(a[0])
    if not any(isinstance(v, S.Sym) for v in a):
        return min(a, **k)
    key = k.get('key')
    r = a[0]
    for v in a[1:]:
        lhs, rhs = (key(v), key(r)) if key else (v, r)
        if lhs < rhs:
            r = v
    return r


def _sym_max(*a, **k):
    if len(a) == 1:
        a = list(a[0])
    if not any(isinstance(v, S.Sym) for v in a):
        return max(a, **k)
    key = k.get('key')
    r = a[0]
    for v in a[1:]:
        lhs, rhs = (key(v), key(r)) if key else (v, r)
        if lhs > rhs:
            r = v
    return r


def _sym_sum(it, start=0):
    r = start
    for v in it:
        r = r + v
    return r


def _sym_isinstance(obj, cls):
    """isinstance that lets exact/symbolic scalars pass for float/int checks the way np.float64 would"""
    if isinstance(obj, (S.Sym, Fraction)) and not isinstance(obj, bool):
        if cls is float or (isinstance(cls, tuple) and float in cls):
            return True
        if isinstance(cls, tuple) and any(c is _sym_float for c in cls):
            return True
        if cls is _sym_float:
            return True
    if cls is _sym_float:
        return isinstance(obj, float)
    if isinstance(cls, tuple) and any(c is _sym_float for c in cls):
        cls = tuple(float if c is _sym_float else c for c in cls)
    return isinstance(obj, cls)


class SetConstant(ast.NodeTransformer):
    """AST cut: inside function `func`, replace the value assigned to local `name` by `value`
    (used to cap hard-coded iteration counts; recorded in the evidence as a bound)"""

    def __init__(self, func, name, value):
        self.func, self.name, self.value = func, name, value
        self.hits = 0

    def __call__(self, tree):
        return self.visit(tree)

    def visit_FunctionDef(self, node):
        if node.name != self.func:
            return node
        for sub in ast.walk(node):
            if isinstance(sub, ast.Assign) and len(sub.targets) == 1 and isinstance(sub.targets[0], ast.Name) \
                    and sub.targets[0].id == self.name:
                sub.value = ast.Constant(value=self.value)
                self.hits += 1
        return node
