"""Replay one concrete case against the real installed library (compiled kernels, float64).

  python -m vt.replay --json '{"property":..,"case":..,"values":{..},"tier":..,"seed":..}'
  python -m vt.replay <replay-file.json>
prints REPLAY-RESULT {"status": "reproduced"|"passed"|"rejected", "failures": [...]}
exit 1 if the violation reproduces, 0 otherwise."""
import json
import sys
import traceback
import warnings


def run(req):
    warnings.filterwarnings('ignore')
    from .run import load_harness
    from .world import ConcreteWorld, HarnessReject
    mod = load_harness(req['property'])
    import os
    for k, v in getattr(mod, 'REPLAY_ENV', {}).items():     # must be set before the library (numba) is imported
        os.environ.setdefault(k, v)
    cases = mod.cases(req.get('tier', 'quick'), req.get('seed', 0))
    case = [c for c in cases if c.name == req['case']]
    if not case:
        # thorough-only case replayed with the other tier
        cases = mod.cases('thorough', req.get('seed', 0))
        case = [c for c in cases if c.name == req['case']]
    if not case:
        return dict(status='error', failures=[dict(label='no-such-case', detail=req['case'])])
    case = case[0]
    if hasattr(case.fn, 'replay'):
        return case.fn.replay(req)
    w = ConcreteWorld(req['values'], case.params, slack=float(req.get('slack', 0.0)))
    try:
        case.fn(w)
    except HarnessReject as e:
        return dict(status='rejected', failures=[dict(label='rejected', detail=str(e))])
    except Exception as e:
        return dict(status='reproduced', failures=[dict(label='no-exception', detail='%s: %s' % (type(e).__name__, e),
                                                        tb=traceback.format_exc(limit=8))],
                    checked=w.checked)
    if w.failures:
        return dict(status='reproduced', failures=[dict(label=f.label, detail=f.detail) for f in w.failures],
                    checked=w.checked)
    return dict(status='passed', failures=[], checked=w.checked)


def sample(pid, tier, seed, n, only=None):
    """differential concretisation: run every symbolic-engine case of the property n times on random concrete inputs
    against the real library; returns a list of result dicts"""
    import random
    import re
    warnings.filterwarnings('ignore')
    from .run import load_harness
    from .world import ConcreteWorld, HarnessReject
    mod = load_harness(pid)
    out = []
    for case in mod.cases(tier, seed):
        if case.engine != 'symnp' or (only and not re.search(only, case.name)):
            continue
        k = getattr(case, 'concrete_samples', None)
        for i in range(k if k is not None else n):
            rng = random.Random('%s/%s/%d/%d' % (pid, case.name, seed, i))
            w = ConcreteWorld({}, case.params, rng=rng)
            rec = dict(case=case.name, i=i)
            limit = int(getattr(mod, 'SAMPLE_TIME_LIMIT_S', 0) or 0)      # harness opt-in: a sample that cannot terminate is rejected
            try:
                if limit:
                    import signal

                    def _stop(signum, frame):
                        raise HarnessReject('sample exceeded %d s (no progress)' % limit)
                    signal.signal(signal.SIGALRM, _stop)
                    signal.setitimer(signal.ITIMER_REAL, limit, 2.0)
                try:
                    case.fn(w)
                finally:
                    if limit:
                        signal.setitimer(signal.ITIMER_REAL, 0)
                rec['status'] = 'failed' if w.failures else 'passed'
                rec['failures'] = [dict(label=f.label, detail=f.detail) for f in w.failures][:5]
            except HarnessReject as e:
                rec['status'] = 'rejected'
                rec['why'] = str(e)
            except Exception as e:
                rec['status'] = 'failed'
                rec['failures'] = [dict(label='no-exception', detail='%s: %s' % (type(e).__name__, e),
                                        tb=traceback.format_exc(limit=6))]
            rec['checked'] = len(w.checked)
            if rec['status'] == 'failed':
                rec['values'] = {k_: repr(v) for k_, v in w.drawn.items()}
            out.append(rec)
    return out


def main():
    if len(sys.argv) >= 2 and sys.argv[1] == '--sample':
        pid, tier, seed, n = sys.argv[2], sys.argv[3], int(sys.argv[4]), int(sys.argv[5])
        res = sample(pid, tier, seed, n, sys.argv[6] if len(sys.argv) > 6 else None)
        print('SAMPLE-RESULT ' + json.dumps(res))
        return 0
    if len(sys.argv) >= 3 and sys.argv[1] == '--json':
        req = json.loads(sys.argv[2])
    else:
        req = json.load(open(sys.argv[1]))
    res = run(req)
    print('REPLAY-RESULT ' + json.dumps(res))
    if res['status'] == 'reproduced':
        for f in res['failures']:
            print('REPRODUCED %s: %s' % (f['label'], f['detail']))
        return 1
    return 0


if __name__ == '__main__':
    sys.exit(main())
