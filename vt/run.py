"""CLI: python -m vt.run <ID> --tier quick|thorough     (see DESIGN.md section 7)

exit 0  property held on everything explored (known findings printed as KNOWN-FINDING lines)
exit 1  reproduced, unlisted violation:  VIOLATION property=<id> replay=<path>
exit 3  harness error (vacuous harness, unreproducible counterexample only, internal failure)
"""
import argparse
import hashlib
import importlib
import json
import multiprocessing as mp
import os
import random
import re
import subprocess
import sys
import time
import traceback

ROOT = os.path.dirname(os.path.dirname(os.path.abspath(__file__)))
REPO = os.environ.get('VERIF_REPO', '/repo')


class Case:
    def __init__(self, name, fn, params=None, opts=None, concrete_samples=None, engine='symnp', note=None,
                 concrete_only=False):
        self.name = name
        self.fn = fn
        self.params = params or {}
        self.opts = opts or {}
        self.concrete_samples = concrete_samples
        self.engine = engine
        self.note = note
        self.concrete_only = concrete_only     # not encodable symbolically: exercised by concrete sampling only


def load_harness(pid):
    for f in os.listdir(os.path.join(ROOT, 'vt', 'harness')):
        if f.lower().startswith(pid.lower()) and f.endswith('.py'):
            return importlib.import_module('vt.harness.' + f[:-3])
    raise SystemExit('no harness for %s' % pid)


class CaseTimeout(BaseException):
    pass


def _alarm(signum, frame):
    raise CaseTimeout()


def _run_case_symbolic(args):
    pid, idx, tier, seed = args
    t0 = time.time()
    out = dict(index=idx, error=None)
    import signal
    try:
        signal.signal(signal.SIGALRM, _alarm)
        # repeating: a bare `except:` in the code under test may swallow the first one
        signal.setitimer(signal.ITIMER_REAL, float(os.environ.get('VERIF_CASE_TIMEOUT', '900' if tier == 'quick' else '1500')), 5.0)
    except (ValueError, AttributeError):
        pass
    try:
        from . import sym as S, engine, loader, world, symnp
        mod = load_harness(pid)
        cases = mod.cases(tier, seed)
        case = cases[idx]
        out['name'] = case.name
        if case.engine != 'symnp':
            r = case.fn(tier, seed, case)      # custom engine (e.g. CrossHair) returns the dict itself
            r.setdefault('name', case.name)
            r['index'] = idx
            r['wall_s'] = time.time() - t0
            return r
        S.reset_registry()
        symnp.StubLog.used = {}
        env = loader.Env()
        defaults = dict(mod.EXPLORER_DEFAULTS.get(tier, {})) if hasattr(mod, 'EXPLORER_DEFAULTS') else {}
        defaults.update(case.opts)
        ex = engine.Explorer(**defaults)
        results, complete = ex.explore(case.fn, lambda ctx: world.SymWorld(ctx, env, case.params))
        obs = []
        outcomes = {}
        decisions = 0
        errors = []
        assumed_nonzero = 0
        samples = []
        for r in results:
            outcomes[r.outcome] = outcomes.get(r.outcome, 0) + 1
            decisions += r.n_decisions
            assumed_nonzero += r.assumed_nonzero
            if r.outcome in ('error',) or r.outcome.startswith('raised'):
                errors.append(dict(prefix=r.prefix, outcome=r.outcome, exc=r.exc, tb=getattr(r, 'tb', None)))
            for o in r.obligations:
                d = o.as_dict()
                d['prefix'] = r.prefix
                if o.smt and (o.status != 'proved' or len(samples) < 1):
                    if o.status == 'proved':
                        samples.append(dict(case=case.name, label=o.label, path_conditions=r.conds_smt,
                                            status=o.status, smt2=o.smt))
                    else:
                        d['smt2'] = o.smt
                if o.status != 'proved':
                    d['path_conditions'] = r.conds_smt
                obs.append(d)
        out.update(paths=len(results), complete=complete, outcomes=outcomes, decisions=decisions,
                   obligations=obs, stats=ex.stats.as_dict(), hashes=env.hashes, stubs=dict(symnp.StubLog.used),
                   errors=errors[:5], n_errors=len(errors), assumed_nonzero=assumed_nonzero,
                   unknown_branches=ex.unknown_branches, samples=samples, atoms=len(S.ATOMS))
    except CaseTimeout:
        # a single path exceeded the per-case wall budget (usually polynomial blow-up): reported, never counted as success
        out.update(paths=0, complete=False, outcomes={'timeout': 1}, decisions=0, obligations=[
            dict(label='case completes within the time budget', status='unknown', how='solver', secs=time.time() - t0, prefix=[])],
            stats={}, hashes={}, stubs={}, errors=[], n_errors=0, samples=[])
        out.setdefault('name', 'case-%d' % idx)
    except BaseException as e:
        out['error'] = '%s: %s\n%s' % (type(e).__name__, e, traceback.format_exc(limit=15))
    finally:
        try:
            signal.setitimer(signal.ITIMER_REAL, 0)
        except (ValueError, AttributeError):
            pass
    out['wall_s'] = time.time() - t0
    return out


def _child(conn, item):
    try:
        r = _run_case_symbolic(item)
    except BaseException as e:      # noqa
        r = dict(index=item[1], error='%s: %s' % (type(e).__name__, e))
    try:
        conn.send(r)
    except Exception as e:
        conn.send(dict(index=item[1], error='result not transferable: %s' % e))
    conn.close()


def _run_all(ctx, work, jobs, tier, cases):
    """one process per case with a HARD wall-clock limit: a solver call that ignores its resource limit, or a worker killed by a
    stack overflow, can neither hang the run nor be taken for success (reported as an unknown obligation of that case)"""
    limit = float(os.environ.get('VERIF_CASE_TIMEOUT', '900' if tier == 'quick' else '1500')) + 120.0
    pending = list(work)
    running = []
    results = {}
    while pending or running:
        while pending and len(running) < jobs:
            item = pending.pop(0)
            pc, cc = ctx.Pipe(duplex=False)
            pr = ctx.Process(target=_child, args=(cc, item))
            pr.start()
            cc.close()
            running.append((pr, pc, item, time.time()))
        still = []
        for pr, pc, item, t0 in running:
            got = None
            if pc.poll(0):
                try:
                    got = pc.recv()
                except EOFError:
                    got = None
                    pr.join(1)
            if got is not None:
                results[item[1]] = got
                pr.join(5)
                continue
            dead = not pr.is_alive()
            if dead and pc.poll(0):
                still.append((pr, pc, item, t0))
                continue
            if dead or time.time() - t0 > limit:
                if not dead:
                    pr.kill()
                    pr.join(5)
                why = 'worker died (exit code %s)' % pr.exitcode if dead else 'hard wall-clock limit %.0f s exceeded (solver ignored its limits)' % limit
                results[item[1]] = dict(index=item[1], error=None, name=cases[item[1]].name, paths=0, complete=False, outcomes={'timeout': 1},
                                        decisions=0, obligations=[dict(label='case completes within the time budget (%s)' % why, status='unknown',
                                                                       how='solver', secs=time.time() - t0, prefix=[])],
                                        stats={}, hashes={}, stubs={}, errors=[], n_errors=0, samples=[], wall_s=time.time() - t0)
                continue
            still.append((pr, pc, item, t0))
        running = still
        if running:
            time.sleep(0.2)
    return [results[item[1]] for item in work]


def _replay_env(pid):
    """extra environment for concrete replays / samples of a property (harness attribute REPLAY_ENV)"""
    try:
        return dict(getattr(load_harness(pid), 'REPLAY_ENV', {}))
    except Exception:
        return {}


def replay_case(pid, case_name, values, tier, seed, timeout=600):
    """run one concrete case in a fresh interpreter against the real library -> (status, failures)"""
    req = dict(property=pid, case=case_name, values=values, tier=tier, seed=seed)
    p = subprocess.run([sys.executable, '-m', 'vt.replay', '--json', json.dumps(req)], cwd=ROOT,
                       capture_output=True, text=True, timeout=timeout,
                       env=dict(os.environ, PYTHONPATH=ROOT + os.pathsep + REPO, NUMBA_DISABLE_PERFORMANCE_WARNINGS='1',
                                **_replay_env(pid)))
    last = None
    for line in p.stdout.splitlines():
        if line.startswith('REPLAY-RESULT '):
            last = json.loads(line[len('REPLAY-RESULT '):])
    if last is None:
        return 'error', [dict(label='replay-crashed', detail=(p.stderr or p.stdout)[-800:])]
    return last['status'], last.get('failures', [])


def load_known():
    p = os.path.join(ROOT, 'known_findings.json')
    if not os.path.exists(p):
        return []
    return json.load(open(p)).get('findings', [])


def _values_match(spec, values):
    """optional 'values' of a known finding: {input name: [value, tolerance]} - every listed input must be present and within tolerance"""
    if not spec:
        return True
    for name, (val, tol) in spec.items():
        try:
            from fractions import Fraction
            q = values.get(name)
            x = float(Fraction(q)) if isinstance(q, str) and '/' in q else float(q)
        except Exception:
            return False
        if abs(x - float(val)) > float(tol):
            return False
    return True


def match_known(known, pid, case_name, label, source='symbolic', detail='', values=None):
    """a known finding is identified by property + case (regex) + obligation label (regex) + where it was observed
    (source: 'symbolic' = solver counterexample replayed, 'sample' = concrete float sample on the real library) and
    optionally a regex on the failure detail; anything else is still reported"""
    for k in known:
        if k.get('status') != 'known' or k.get('property') != pid:
            continue
        if k.get('source', 'symbolic') != source:
            continue
        if re.fullmatch(k['case'], case_name) and re.fullmatch(k['label'], label):
            if k.get('detail') and not re.search(k['detail'], detail or ''):
                continue
            if not _values_match(k.get('values'), values or {}):
                continue
            return k
    return None


def main(argv=None):
    ap = argparse.ArgumentParser()
    ap.add_argument('property')
    ap.add_argument('--tier', default=os.environ.get('VERIF_TIER', 'quick'))
    ap.add_argument('--jobs', type=int, default=int(os.environ.get('VERIF_JOBS', '16')))
    ap.add_argument('--only', default=None, help='regex on case names')
    ap.add_argument('--verbose', '-v', action='store_true')
    a = ap.parse_args(argv)
    pid = a.property.upper()
    tier = a.tier
    seed = int(os.environ.get('VERIF_SEED', '0') or 0)
    t_start = time.time()
    mod = load_harness(pid)
    cases = mod.cases(tier, seed)
    idxs = [i for i, c in enumerate(cases) if (not a.only or re.search(a.only, c.name)) and not c.concrete_only]
    work = [(pid, i, tier, seed) for i in idxs]
    ctx = mp.get_context('fork')
    results = _run_all(ctx, work, max(1, a.jobs), tier, cases)

    known = load_known()
    violations = []
    known_hits = []
    spurious = []
    unconfirmed = []
    inconclusive = []
    harness_errors = []
    n_oblig = n_proved = n_norm = n_solver = 0
    paths = decisions = 0
    replays = 0
    queries = 0
    solver_s = 0.0
    hashes = {}
    stubs = {}
    samples = []
    incomplete = []
    vacuity = 0
    distinct_obl = set()
    for r in results:
        if r.get('error'):
            harness_errors.append(dict(case=r.get('name'), error=r['error']))
            continue
        paths += r.get('paths', 0)
        decisions += r.get('decisions', 0)
        st = r.get('stats', {})
        queries += st.get('queries', 0)
        solver_s += st.get('solver_s', 0.0)
        hashes.update(r.get('hashes', {}))
        for k, v in r.get('stubs', {}).items():
            stubs[k] = stubs.get(k, 0) + v
        samples.extend(r.get('samples', [])[:1])
        if not r.get('complete', True):
            incomplete.append(r['name'])
        if r.get('n_errors'):
            for e in r['errors']:
                if e['outcome'] == 'error':
                    harness_errors.append(dict(case=r['name'], error=e['exc'], tb=e.get('tb')))
        for o in r.get('obligations', []):
            if o['how'] == 'witness':
                vacuity += 1
                if o['status'] == 'violated':
                    harness_errors.append(dict(case=r['name'], error='vacuous harness: %s unsatisfiable' % o['label']))
                elif o['status'] == 'unknown':
                    inconclusive.append(dict(case=r['name'], label=o['label'], why='witness unknown'))
                continue
            n_oblig += 1
            distinct_obl.add((r['name'], o['label'], tuple(o.get('prefix') or ())))
            if o['status'] == 'proved':
                n_proved += 1
                if o['how'] == 'normal-form':
                    n_norm += 1
                else:
                    n_solver += 1
            elif o['status'] == 'unknown':
                inconclusive.append(dict(case=r['name'], label=o['label'], prefix=o.get('prefix')))
            elif o['status'] == 'violated':
                # replay against the real library before believing it
                if o.get('model') is None:
                    inconclusive.append(dict(case=r['name'], label=o['label'], why='no model'))
                    continue
                if replays >= int(os.environ.get('VERIF_MAX_REPLAYS', '24')):
                    inconclusive.append(dict(case=r['name'], label=o['label'], why='replay budget'))
                    continue
                replays += 1
                try:
                    status, fails = replay_case(pid, r['name'], o['model'], tier, seed)
                except subprocess.TimeoutExpired:
                    status, fails = 'error', [dict(label='replay-timeout', detail='')]
                rec = dict(case=r['name'], label=o['label'], model=o['model'], detail=o.get('detail'),
                           path_conditions=o.get('path_conditions'), replay_status=status, replay_failures=fails)
                if status == 'reproduced':
                    k = match_known(known, pid, r['name'], o['label'], 'symbolic', json.dumps(fails), o.get('model') or {})
                    if k is not None:
                        known_hits.append((k, rec))
                    else:
                        violations.append(rec)
                elif o.get('model_only'):
                    unconfirmed.append(rec)
                else:
                    spurious.append(rec)

    # differential concretisation (DESIGN 4): the same harnesses on random concrete inputs against the real,
    # compiled library; validates oracle + encoder, and any failure is a real violation with concrete inputs
    n_samples = int(os.environ.get('VERIF_SAMPLES', '3' if tier == 'quick' else '10'))
    sample_stats = dict(run=0, passed=0, rejected=0, failed=0)
    if n_samples > 0 and any(c.engine == 'symnp' for c in cases):
        try:
            p = subprocess.run([sys.executable, '-m', 'vt.replay', '--sample', pid, tier, str(seed), str(n_samples)] +
                               ([a.only] if a.only else []), cwd=ROOT, capture_output=True, text=True, timeout=3600,
                               env=dict(os.environ, PYTHONPATH=ROOT + os.pathsep + REPO,
                                        NUMBA_DISABLE_PERFORMANCE_WARNINGS='1', **_replay_env(pid)))
            recs = None
            for line in p.stdout.splitlines():
                if line.startswith('SAMPLE-RESULT '):
                    recs = json.loads(line[len('SAMPLE-RESULT '):])
            if recs is None:
                harness_errors.append(dict(case='concrete-samples', error=(p.stderr or p.stdout)[-1500:]))
                recs = []
            for rec in recs:
                sample_stats['run'] += 1
                sample_stats[rec['status']] += 1
                if rec['status'] == 'failed':
                    lab = rec['failures'][0]['label'] if rec.get('failures') else 'concrete sample'
                    v = dict(case=rec['case'], label=lab, model=rec.get('values', {}), detail='random concrete sample',
                             path_conditions=None, replay_status='reproduced', replay_failures=rec.get('failures'))
                    k = match_known(known, pid, rec['case'], lab, 'sample', json.dumps(rec.get('failures')), rec.get('values') or {})
                    if k is not None:
                        known_hits.append((k, v))
                    else:
                        violations.append(v)
        except subprocess.TimeoutExpired:
            harness_errors.append(dict(case='concrete-samples', error='timeout'))

    # de-duplicate violations per (case,label)
    seen = set()
    uniq = []
    for v in violations:
        key = (v['case'], v['label'])
        if key not in seen:
            seen.add(key)
            uniq.append(v)
    violations = uniq

    os.makedirs(os.path.join(ROOT, 'replays', pid), exist_ok=True)
    vio_lines = []
    for v in violations:
        body = dict(property=pid, case=v['case'], values=v['model'], tier=tier, seed=seed, label=v['label'],
                    detail=v.get('detail'), replay_failures=v.get('replay_failures'),
                    path_conditions=v.get('path_conditions'))
        h = hashlib.sha256(json.dumps(body, sort_keys=True).encode()).hexdigest()[:16]
        path = os.path.join(ROOT, 'replays', pid, h + '.json')
        json.dump(body, open(path, 'w'), indent=1)
        vio_lines.append('VIOLATION property=%s replay=%s' % (pid, path))
        v['replay'] = path
    printed_known = set()
    for k, rec in known_hits:
        if k['id'] not in printed_known:
            printed_known.add(k['id'])
            print('KNOWN-FINDING: property=%s %s' % (pid, k['what']))

    level = getattr(mod, 'LEVEL', 'model_checking')
    ev = dict(
        property_id=pid, tier=tier, seed=seed, level=level, wall_s=round(time.time() - t_start, 2),
        violations=len(violations),
        assumptions=list(getattr(mod, 'ASSUMPTIONS', [])) + [
            'reals, not IEEE-754 floats; np.pi is the real number pi',
            'every division by a non-constant denominator assumes the denominator non-zero',
            'stubs used on this run: %s' % (', '.join(sorted(stubs)) or 'none')],
        coverage=dict(
            states=max(paths, 0), transitions=max(decisions, 0),
            traces_validated_against_impl=replays + sample_stats['passed'] + sample_stats['failed'],
            concrete_samples=sample_stats,
            evaluations=max(queries, n_oblig), distinct_nontrivial=len(distinct_obl),
            rule='one case per harness instantiation; states = feasible paths of the real source explored; '
                 'transitions = symbolic branch decisions; evaluations = solver queries; distinct_nontrivial '
                 '= distinct (case, path, obligation label) triples, each a universally quantified statement over the '
                 'symbolic inputs of that path; the split closed-by-normal-form / needed-solver-search is reported next to it',
            obligations=n_oblig, discharged=n_proved, discharged_by_normal_form=n_norm,
            discharged_by_solver=n_solver, inconclusive=len(inconclusive), spurious_counterexamples=len(spurious),
            unconfirmed_model_only_counterexamples=len(unconfirmed), unconfirmed_list=unconfirmed[:5],
            known_findings_hit=sorted(printed_known), vacuity_witnesses=vacuity,
            cases=len(work), cases_incomplete=incomplete, solver_queries=queries, solver_seconds=round(solver_s, 2),
            functions_encoded=list(getattr(mod, 'ENCODED', [])), bounds=getattr(mod, 'BOUNDS', {}).get(tier, ''),
            outside_claim=list(getattr(mod, 'OUTSIDE', [])), source_hashes=hashes, stubs_used=stubs,
            samples=(samples[:3] or [dict(note='all obligations closed by normal form', cases=[c.name for c in cases][:5])])
            + [dict(violation=v) for v in violations[:3]],
            inconclusive_list=inconclusive[:20], spurious_list=spurious[:5],
            harness_errors=harness_errors[:5],
            exhaustive=False,
        ))
    if hasattr(mod, 'extra_evidence'):
        try:
            mod.extra_evidence(ev, results)
        except Exception as e:
            ev['coverage']['extra_evidence_error'] = str(e)
    if ev['coverage']['states'] < 1:
        ev['coverage']['states'] = 1
    if ev['coverage']['transitions'] < 1:
        ev['coverage']['transitions'] = 1
    evdir = os.environ.get('VERIF_EVIDENCE_DIR') or os.path.join(ROOT, 'evidence')      # override: sizing runs that must not touch the committed evidence
    os.makedirs(evdir, exist_ok=True)
    json.dump(ev, open(os.path.join(evdir, pid + '.json'), 'w'), indent=1, default=str)

    print('%s tier=%s cases=%d paths=%d obligations=%d proved=%d (normal-form %d, solver %d) inconclusive=%d '
          'spurious=%d unconfirmed=%d violations=%d known=%d queries=%d solver_s=%.1f wall_s=%.1f' % (
              pid, tier, len(work), paths, n_oblig, n_proved, n_norm, n_solver, len(inconclusive), len(spurious), len(unconfirmed),
              len(violations), len(printed_known), queries, solver_s, time.time() - t_start))
    if a.verbose or harness_errors:
        for h in harness_errors[:10]:
            print('HARNESS-ERROR', h.get('case'), h.get('error'))
            if h.get('tb'):
                print(h['tb'])
    if a.verbose:
        for i in inconclusive[:20]:
            print('INCONCLUSIVE', i)
        for s_ in spurious[:10]:
            print('SPURIOUS', json.dumps(s_, default=str)[:1500])
        for r in results:
            print('  case %-40s paths=%-4s wall=%.1fs %s' % (r.get('name'), r.get('paths'), r.get('wall_s', 0),
                                                           r.get('outcomes')))
    for l in vio_lines:
        print(l)
    if violations:
        return 1
    if harness_errors:
        return 3
    if spurious and not known_hits:
        print('HARNESS-ERROR: %d counterexample(s) did not reproduce on the real library' % len(spurious))
        return 3
    if incomplete:
        print('NOTE: exploration budget reached in cases: %s (reported in evidence, not claimed)' % incomplete)
    return 0


if __name__ == '__main__':
    sys.exit(main())
