#!/bin/sh
# usage: vt/seedtest.sh <seeded-dir> <PID> [tier]   -- apply a seeded mutation to /repo, run the check, undo.
# Prints one summary line.  Never leaves /repo modified.
d="$1"; pid="$2"; tier="${3:-quick}"
cd /repo || exit 9
if [ -n "$(git status --porcelain --untracked-files=no)" ]; then echo "SEEDTEST $d: /repo dirty, refusing"; exit 9; fi
git apply "$d/patch.diff" || { echo "SEEDTEST $d: patch does not apply"; exit 9; }
cd /verif
out=$(vt/check "$pid" --tier "$tier" 2>&1 | grep -v WARNING)
rc=$?
cd /repo && git checkout -- . 
n=$(printf "%s\n" "$out" | grep -c '^VIOLATION')
echo "SEEDTEST $(basename $d) check=$pid tier=$tier violations=$n :: $(printf "%s\n" "$out" | grep "tier=$tier" | cut -c1-220)"
printf "%s\n" "$out" | grep "HARNESS-ERROR" | head -3
