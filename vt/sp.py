"""Stewart-platform fixtures shared by C09 / C10 / C11: rational joint geometry, symbolic plate poses."""
from fractions import Fraction as F
from . import hlib as H
from . import arms as A

BJ = [(1, F(-1, 5)), (1, F(1, 5)), (F(-3, 10), F(19, 20)), (F(-7, 10), F(3, 4)), (F(-7, 10), F(-3, 4)), (F(-3, 10), F(-19, 20))]
TJ = [(F(3, 5), F(-2, 5)), (F(3, 5), F(2, 5)), (F(1, 20), F(7, 10)), (F(-13, 20), F(3, 10)), (F(-13, 20), F(-3, 10)), (F(1, 20), F(-7, 10))]
BTH, TTH = F(1, 10), F(1, 10)
HEIGHT = F(6, 5)
LMIN, LMAX = F(9, 10), F(19, 10)


def _c(w, v):
    return v if w.symbolic else float(v)


def joints(w):
    bj = [[_c(w, p[0]) for p in BJ], [_c(w, p[1]) for p in BJ], [_c(w, BTH)] * 6]
    tj = [[_c(w, p[0]) for p in TJ], [_c(w, p[1]) for p in TJ], [_c(w, -TTH)] * 6]
    return bj, tj


def make_sp(w, base='I', summary=True):
    if w.symbolic and summary:
        from . import summary as SM
        SM.install(w.env)
    km = w.lib('kinematics.sp_model')
    tm = w.lib('general').tm
    bj, tj = joints(w)
    Bm = A.base_matrix(w, base)
    bot = tm(Bm.copy())
    top = bot @ tm([0, 0, _c(w, HEIGHT), 0, 0, 0])
    sp = km.SP(w.array(bj), w.array(tj), bot, top, _c(w, LMIN), _c(w, LMAX), _c(w, BTH), _c(w, TTH), 'sp')
    return sp, dict(bj=bj, tj=tj, B=Bm, tm=tm)


def sym_pose(w, name, plim=2, thmax=None):
    """arbitrary pose as a 4x4 (axis-angle, theta >= 1e-6)"""
    th = w.angle(name + 'th', w.const('1e-6'), thmax if thmax is not None else w.pi - w.const('1e-3'))
    u = w.unit3(name + 'u')
    p = w.reals(name + 'p', 3, -plim, plim)
    return [p[0], p[1], p[2], th * u[0], th * u[1], th * u[2]], H.T_of(w, H.rodrigues(w, u, th), p)


def joint_points(w, T, local):
    """plate pose applied to the plate-fixed joint coordinates -> list of 6 points"""
    out = []
    for i in range(6):
        v = [local[0][i], local[1][i], local[2][i]]
        out.append([T[r][0] * v[0] + T[r][1] * v[1] + T[r][2] * v[2] + T[r][3] for r in range(3)])
    return out


def sq(a, b):
    return sum(((a[k] - b[k]) * (a[k] - b[k]) for k in range(3)), 0)
