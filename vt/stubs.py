"""Environment stubs for the symbolic loader.  Each stub is part of the claim (listed in evidence)."""
import types
from fractions import Fraction

from . import sym as S
from . import symnp
from .sym import Sym

USED = symnp.StubLog


def _mod(name, **attrs):
    m = types.ModuleType(name)
    for k, v in attrs.items():
        setattr(m, k, v)
    return m


# ---------------------------------------------------------------------------------------------
# scipy.spatial.transform.Rotation  (documented formulas; scalar-last quaternions)
# ---------------------------------------------------------------------------------------------

QUAT_HOOK = [None]   # from_matrix(M).as_quat(): harness may supply the quaternion that generated M


def quat_to_matrix(q):
    """R(q/|q|) for q = (x, y, z, w) -- the formula documented for scipy Rotation.as_matrix."""
    x, y, z, w = q
    n2 = x * x + y * y + z * z + w * w
    c = n2.const_value() if isinstance(n2, Sym) else n2
    if c is not None and c == 1:
        s = 2
    else:
        s = 2 / Sym.lift(n2) if isinstance(n2, Sym) else Fraction(2) / n2
    return symnp.array([
        [1 - s * (y * y + z * z), s * (x * y - z * w), s * (x * z + y * w)],
        [s * (x * y + z * w), 1 - s * (x * x + z * z), s * (y * z - x * w)],
        [s * (x * z - y * w), s * (y * z + x * w), 1 - s * (x * x + y * y)]])


class Rotation:
    def __init__(self, matrix=None, quat=None):
        self._m = matrix
        self._q = quat

    @classmethod
    def from_matrix(cls, m):
        USED.note('scipy Rotation.from_matrix')
        return cls(matrix=symnp.asarray(m))

    @classmethod
    def from_quat(cls, q):
        USED.note('scipy Rotation.from_quat')
        q = symnp.asarray(q).reshape(-1)
        if q.shape[0] != 4:
            raise ValueError('Expected `quat` to have shape (4,) or (N, 4), got %s.' % (q.shape,))
        # a quaternion produced by from_matrix(M).as_quat() maps back to M (contract of the pair)
        try:
            from . import engine
            tab = engine.CURRENT[0].memo.get('quat_tab', {})
            key = tuple(S.pkey(Sym.lift(c).n) for c in q)
            if key in tab:
                return cls(matrix=tab[key].copy())
        except Exception:
            pass
        return cls(quat=[q[0], q[1], q[2], q[3]])

    def as_matrix(self):
        if self._m is not None:
            return self._m.copy()
        return quat_to_matrix(self._q)

    def as_quat(self):
        if self._q is not None:
            n2 = sum((c * c for c in self._q), 0)
            n = symnp._sqrt1(n2)
            return symnp.array([c / n for c in self._q])
        h = QUAT_HOOK[0]
        if h is None:
            raise S.SymbolicLeak('Rotation.from_matrix(M).as_quat() needs a quaternion hook')
        return h(self._m)


# ---------------------------------------------------------------------------------------------

class _Unmodelled:
    def __init__(self, name):
        self.name = name

    def __call__(self, *a, **k):
        raise S.SymbolicLeak('%s is not modelled' % self.name)

    def __getattr__(self, attr):
        if attr.startswith('__'):
            raise AttributeError(attr)
        return _Unmodelled(self.name + '.' + attr)


def build(env):
    from .loader import _dummy_module, _Dummy
    st = {}
    rot = _mod('scipy.spatial.transform', Rotation=Rotation)
    spatial = _mod('scipy.spatial', transform=rot)
    optimize = _mod('scipy.optimize', fsolve=_Unmodelled('scipy.optimize.fsolve'),
                    fmin=_Unmodelled('scipy.optimize.fmin'), root=_Unmodelled('scipy.optimize.root'),
                    minimize=_Unmodelled('scipy.optimize.minimize'))
    linalg = _mod('scipy.linalg', expm=_Unmodelled('scipy.linalg.expm'), logm=_Unmodelled('scipy.linalg.logm'),
                  null_space=_Unmodelled('scipy.linalg.null_space'), inv=symnp._inv, pinv=symnp._pinv,
                  norm=symnp._norm, det=symnp._det)
    integrate = _mod('scipy.integrate', solve_ivp=_Unmodelled('scipy.integrate.solve_ivp'),
                     odeint=_Unmodelled('scipy.integrate.odeint'))
    scipy = _mod('scipy', spatial=spatial, optimize=optimize, linalg=linalg, integrate=integrate)
    st['scipy'] = scipy
    st['scipy.spatial'] = spatial
    st['scipy.spatial.transform'] = rot
    st['scipy.optimize'] = optimize
    st['scipy.linalg'] = linalg
    st['scipy.integrate'] = integrate
    st['sqlalchemy'] = _mod('sqlalchemy', true=True)
    # plotting / vision: empty bodies
    st['plotting'] = _dummy_module('plotting')
    st['plotting.vis_matplotlib'] = _dummy_module('plotting.vis_matplotlib')
    st['metrology'] = _dummy_module('metrology')
    st['metrology.virtual_vision'] = _dummy_module('metrology.virtual_vision')
    st['collisions'] = _dummy_module('collisions')
    st['matplotlib'] = _dummy_module('matplotlib')
    st['matplotlib.pyplot'] = _dummy_module('matplotlib.pyplot')
    st['matplotlib'].pyplot = st['matplotlib.pyplot']
    rnd = _mod('random')
    rnd.hook = [None]

    def uniform(a, b):
        h = rnd.hook[0]
        if h is None:
            raise S.SymbolicLeak('random.uniform without a nondeterminism hook')
        return h(a, b)
    rnd.uniform = uniform
    rnd.random = lambda: uniform(0, 1)
    rnd.seed = lambda *a: None
    st['random'] = rnd
    rt, rti = build_rtree()
    st['rtree'] = rt
    st['rtree.index'] = rti
    return st


# ---------------------------------------------------------------------------------------------
# rtree.index double: exact in-memory index.  nearest() orders items by squared distance between
# bounding boxes, ties in insertion order (comparisons on symbolic distances fork the path).
# ---------------------------------------------------------------------------------------------

class _RtreeItem:
    def __init__(self, id, bbox, obj):
        self.id = id
        self.bbox = list(bbox)
        self.object = obj


class _RtreeProperty:
    def __init__(self):
        self.dimension = 2


class _RtreeIndex:
    def __init__(self, *a, properties=None, **k):
        self.dim = properties.dimension if properties is not None else 2
        self.items = []
        USED.note('rtree.index.Index (in-memory double)')

    def insert(self, id, coordinates, obj=None):
        c = list(coordinates)
        if len(c) != 2 * self.dim:
            raise Exception('Coordinates must be in the form (minx, miny, maxx, maxy) or (x, y) for 2D indexes')
        self.items.append(_RtreeItem(id, c, obj))
    add = insert

    def _dist2(self, item, q):
        d = self.dim
        tot = 0
        for i in range(d):
            lo, hi = item.bbox[i], item.bbox[i + d]
            qlo, qhi = q[i], q[i + d]
            # gap between [lo,hi] and [qlo,qhi] along axis i
            if qlo > hi:
                g = qlo - hi
            elif lo > qhi:
                g = lo - qhi
            else:
                g = 0
            tot = tot + g * g
        return tot

    def nearest(self, coordinates, num_results=1, objects=False):
        q = list(coordinates)
        scored = [(self._dist2(it, q), k, it) for k, it in enumerate(self.items)]
        # stable selection sort with (possibly symbolic) comparisons
        out = []
        remaining = scored
        while remaining and len(out) < num_results:
            best = 0
            for j in range(1, len(remaining)):
                if remaining[j][0] < remaining[best][0]:
                    best = j
            out.append(remaining[best])
            remaining = remaining[:best] + remaining[best + 1:]
        # rtree returns all items tied with the last one as well
        if out and remaining:
            last = out[-1][0]
            for r in list(remaining):
                if r[0] == last:
                    out.append(r)
        if objects:
            return iter([o[2] for o in out])
        return iter([o[2].id for o in out])

    def intersection(self, coordinates, objects=False):
        q = list(coordinates)
        d = self.dim
        res = []
        for it in self.items:
            ok = True
            for i in range(d):
                if it.bbox[i] > q[i + d] or it.bbox[i + d] < q[i]:
                    ok = False
                    break
            if ok:
                res.append(it if objects else it.id)
        return iter(res)

    def count(self, coordinates):
        return len(list(self.intersection(coordinates)))


def build_rtree():
    idx = _mod('rtree.index', Index=_RtreeIndex, Property=_RtreeProperty, Item=_RtreeItem)
    return _mod('rtree', index=idx), idx


def install_quat_hook():
    """Rotation.from_matrix(M).as_quat(): fresh unit quaternion q with R(q) = M (the function's contract)"""
    import z3
    counter = [0]

    def hook(M):
        from . import engine
        c = engine.CURRENT[0]
        n = c.memo.get('quat_n', 0)
        c.memo['quat_n'] = n + 1
        at = [S.new_atom('Q%d%s' % (n, ch), 'var') for ch in 'xyzw']
        q = [Sym.atom(a) for a in at]
        w_ = at[3]
        if w_.id not in S.RULES:
            S.RULES[w_.id] = {(): 1, ((at[0].id, 2),): -1, ((at[1].id, 2),): -1, ((at[2].id, 2),): -1}
        R = quat_to_matrix(q)
        ax = [sum((a.z * a.z for a in at[1:]), at[0].z * at[0].z) == 1]
        deps = set(b.id for b in at)
        for i in range(3):
            for j in range(3):
                m = Sym.lift(M[i, j])
                ax.append(Sym.lift(R[i, j]).z() == m.z())
                deps |= m.atoms()
        for a in at:
            a.axioms = ax
            a.deps = tuple(deps - {a.id})
        USED.note('scipy Rotation.as_quat (fresh unit quaternion with R(q) = M)')
        c.memo.setdefault('quat_tab', {})[tuple(S.pkey(x.n) for x in q)] = symnp.asarray(M).copy()
        return symnp.array(q)
    QUAT_HOOK[0] = hook
