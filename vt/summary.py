"""Summary mode (DESIGN 3.1, "Function summaries"): for properties about plumbing ABOVE the rigid-body
primitives, MatrixLog3 is replaced by an uninterpreted map Log: SO(3) -> so(3) and MatrixExp3
recognises its values, with exactly the contracts that C01 establishes for the real functions:

    Exp(Log R) = R           for every R in SO(3)            (C01 c)
    Exp(-Log R) = R^T
    Log(Exp w)  = w          only when the path implies |w| < pi   (C01 b)

The summary checks (by normal form) that the matrix handed to Log is orthonormal; everything else
(TMtoTAA, TAAtoTM, LocalToGlobal, the tm constructors/operators ...) is the real code."""
from . import sym as S
from . import symnp
from .sym import Sym

_MODS = ('modern_robotics_numba.modern_high_performance', 'general.faser_high_performance')


def _ctx():
    from . import engine
    return engine.CURRENT[0]


def _tables():
    c = _ctx()
    t = c.memo.get('summary')
    if t is None:
        t = c.memo['summary'] = dict(log={}, exp={}, n=0, uses=0)
    return t


def _key(M):
    return tuple((S.pkey(Sym.lift(x).n), Sym.lift(x).f) for x in M.reshape(-1))


def _is_orthonormal(R):
    RtR = symnp.dot(R.T, R)
    for i in range(3):
        for j in range(3):
            d = Sym.lift(RtR[i, j]) - (1 if i == j else 0)
            if not d.is_zero():
                return False
    return True


def install(env):
    if getattr(env, '_summary_installed', False):
        return
    env._summary_installed = True
    mods = [env.get(m) for m in _MODS]
    real_exp = mods[0].MatrixExp3
    real_log = mods[0].MatrixLog3
    np = env.np

    def MatrixLog3(R):
        R = np.asarray(R)
        if all(not isinstance(x, Sym) or x.const_value() is not None for x in R.reshape(-1)):
            return real_log(R)
        t = _tables()
        k = _key(R)
        hit = t['log'].get(k)
        if hit is not None:
            return hit.copy()
        # Log(Exp w) = w when |w| < pi is implied by the path
        w = t['exp'].get(k)
        if w is not None:
            n2 = w[0] * w[0] + w[1] * w[1] + w[2] * w[2]
            pi2 = S.sym_pi() * S.sym_pi()
            c = _ctx()
            cond = (Sym.lift(n2) < pi2)
            ok = cond if isinstance(cond, bool) else (
                c.check([S.z3.Not(cond.z)], cond.atoms, 5000)[0] == 'unsat')
            if ok:
                t['uses'] += 1
                return np.array([[0, -w[2], w[1]], [w[2], 0, -w[0]], [-w[1], w[0], 0]])
        if not _is_orthonormal(R):
            # not recognisably a rotation: use the real code
            return real_log(R)
        n = t['n']
        t['n'] += 1
        at = [S.new_atom('Log%d_%d' % (n, i), 'var') for i in range(3)]
        P = S.pi_atom()
        for a in at:
            a.axioms = [a.z <= P.z, a.z >= -P.z,
                        at[0].z * at[0].z + at[1].z * at[1].z + at[2].z * at[2].z <= P.z * P.z]
            a.deps = tuple(b.id for b in at if b is not a) + (P.id,)
        l = [Sym.atom(a) for a in at]
        so3 = np.array([[0, -l[2], l[1]], [l[2], 0, -l[0]], [-l[1], l[0], 0]])
        t['log'][k] = so3
        t['exp'][('L', at[0].id, at[1].id, at[2].id)] = R.copy()
        t['uses'] += 1
        return so3.copy()

    def _atom_id(x, sign):
        """x == sign * (single atom)  -> atom id or None"""
        if not isinstance(x, Sym) or x.f or len(x.n) != 1:
            return None
        (m, c), = x.n.items()
        if c != sign or len(m) != 1 or m[0][1] != 1:
            return None
        return m[0][0]

    def MatrixExp3(so3mat):
        so3mat = np.asarray(so3mat)
        v = [so3mat[2][1], so3mat[0][2], so3mat[1][0]]
        t = _tables()
        for sign in (1, -1):
            ids = [_atom_id(x, sign) for x in v]
            if None not in ids:
                R = t['exp'].get(('L', ids[0], ids[1], ids[2]))
                if R is not None:
                    t['uses'] += 1
                    return R.copy() if sign == 1 else R.T.copy()
        R = real_exp(so3mat)
        if any(isinstance(x, Sym) and x.const_value() is None for x in v):
            t['exp'][_key(np.asarray(R))] = v
        return R

    for m in mods:
        m.MatrixLog3 = MatrixLog3
        m.MatrixExp3 = MatrixExp3
    symnp.StubLog.note('summary: MatrixLog3/MatrixExp3 with the contracts proved in C01')
