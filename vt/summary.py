"""Summary mode (DESIGN 3.1, "Function summaries"): for properties about plumbing ABOVE the rigid-body
primitives, MatrixLog3 is replaced by an uninterpreted map Log: SO(3) -> so(3) and MatrixExp3
recognises its values, with exactly the contracts that C01 establishes for the real functions:

    Exp(Log R) = R           for every R in SO(3)            (C01 c)
    Exp(-Log R) = R^T
    Log(Exp w)  = w          only when the path implies |w| < pi   (C01 b)
    |Log R|     = arccos((tr R - 1)/2)  and  R = Rodrigues(Log R)   (definition of the logarithm; axioms for Z3)
    Exp6(Log6 T) = T         for every T in SE(3)            (C01 c)

The summary checks (by normal form) that the matrix handed to Log is orthonormal; everything else
(TMtoTAA, TAAtoTM, LocalToGlobal, the tm constructors/operators ...) is the real code."""
from . import sym as S
from . import symnp
from .sym import Sym

_MODS = ('modern_robotics_numba.modern_high_performance', 'general.faser_high_performance')


def _ctx():
    from . import engine
    return engine.CURRENT[0]


def _tables():
    c = _ctx()
    t = c.memo.get('summary')
    if t is None:
        t = c.memo['summary'] = dict(log={}, exp={}, n=0, uses=0)
    return t


def _key(M):
    return tuple((S.pkey(Sym.lift(x).n), Sym.lift(x).f) for x in M.reshape(-1))


ORTHO_STATS = dict(exact=0, randomized=0)
LAST_DEV = []


def _is_orthonormal(R):
    """side condition of the Log summary: its argument is a rotation matrix.  Exact (normal form) when the entries are
    small; for large entries a randomized polynomial identity test on the variety of the atoms' defining relations
    (3 points, 1e-8): a non-identity passes with probability zero up to rounding."""
    size = sum(len(Sym.lift(x).n) for x in R.reshape(-1))
    if size <= 600:
        ORTHO_STATS['exact'] += 1
        RtR = symnp.dot(R.T, R)
        for i in range(3):
            for j in range(3):
                d = Sym.lift(RtR[i, j]) - (1 if i == j else 0)
                if not d.is_zero():
                    return False
        return True
    import random
    ORTHO_STATS['randomized'] += 1
    atoms = set()
    for x in R.reshape(-1):
        atoms |= Sym.lift(x).atoms()
    rng = random.Random(12345)
    good = 0
    for _ in range(12):
        pt = S.random_point(atoms, rng)
        if pt is None:
            continue
        try:
            M = [[_eval_at(Sym.lift(R[i, j]), pt) for j in range(3)] for i in range(3)]
        except (ZeroDivisionError, KeyError):
            continue
        for i in range(3):
            for j in range(3):
                v = sum(M[k][i] * M[k][j] for k in range(3)) - (1 if i == j else 0)
                if abs(v) > 1e-8:
                    LAST_DEV.append((i, j, v))
                    return False
        good += 1
        if good >= 3:
            return True
    LAST_DEV.append(('no-points', good))
    return False


def _eval_at(x, pt):
    n = S.p_eval(x.n, pt)
    if not x.f:
        return n
    return n / S.p_eval(x.d, pt)


def install(env):
    if getattr(env, '_summary_installed', False):
        return
    env._summary_installed = True
    mods = [env.get(m) for m in _MODS]
    real_exp = mods[0].MatrixExp3
    real_log = mods[0].MatrixLog3
    np = env.np

    def MatrixLog3(R):
        R = np.asarray(R)
        if all(not isinstance(x, Sym) or x.const_value() is not None for x in R.reshape(-1)):
            # concrete matrix: only the exact identity goes through the real code (exact zeros); any other concrete
            # rotation is summarised too, so that no float trigonometry enters exact arithmetic
            if all(Sym.lift(R[i, j]).const_value() == (1 if i == j else 0) for i in range(3) for j in range(3)):
                return real_log(R)
        t = _tables()
        k = _key(R)
        hit = t['log'].get(k)
        if hit is not None:
            return hit.copy()
        # Log(Exp w) = w when |w| < pi is implied by the path
        w = t['exp'].get(k)
        if w is not None:
            n2 = w[0] * w[0] + w[1] * w[1] + w[2] * w[2]
            pi2 = S.sym_pi() * S.sym_pi()
            c = _ctx()
            cond = (Sym.lift(n2) < pi2)
            ok = cond if isinstance(cond, bool) else (
                c.check([S.z3.Not(cond.z)], cond.atoms, 5000)[0] == 'unsat')
            if ok:
                t['uses'] += 1
                return np.array([[0, -w[2], w[1]], [w[2], 0, -w[0]], [-w[1], w[0], 0]])
        if not _is_orthonormal(R):
            # not recognisably a rotation: use the real code
            import os
            if os.environ.get('VERIF_DEBUG_SUMMARY'):
                print('SUMMARY: not orthonormal; sizes', [len(Sym.lift(x).n) for x in R.reshape(-1)], ORTHO_STATS, LAST_DEV)
            return real_log(R)
        n = t['n']
        t['n'] += 1
        # the rotation angle: |Log R| = arccos((tr R - 1)/2) =: ang, with cos ang = x and sin ang = sa >= 0, sa^2 = 1 - x^2.
        # (own atoms instead of sym_arccos: x can be a very large rational function and 1 - x*x is never multiplied
        # out in the normaliser; the relation is handed to Z3 over the term of x)
        import hashlib
        z3 = S.z3
        hk = hashlib.md5(repr(k).encode()).hexdigest()[:10]     # Log is a function of the matrix: name by its entries
        x = (Sym.lift(R[0, 0]) + R[1, 1] + R[2, 2] - 1) / 2
        fresh = ('Ang_%s' % hk) not in S.ATOM_BY_NAME
        a_at = S.new_atom('Ang_%s' % hk, 'angle', S.AngleInfo())
        sa_at = S.new_atom('SinAng_%s' % hk, 'var')
        at = [S.new_atom('Log_%s_%d' % (hk, i), 'var') for i in range(3)]
        ang = Sym.atom(a_at)
        sa = Sym.atom(sa_at)
        l = [Sym.atom(a) for a in at]
        if not fresh:
            sa = a_at.data.sin
        if fresh:
            P = S.pi_atom()
            a_at.nonneg = True
            sa_at.nonneg = True
            if x.const_value() is not None:
                sa = S.sym_sqrt(1 - x * x)          # concrete rotation: exact sine (rational or a sqrt constant)
            a_at.data.cos = x
            a_at.data.sin = sa
            xz = x.z()
            base = [a_at.z >= 0, a_at.z <= P.z, sa_at.z >= 0, sa_at.z * sa_at.z + xz * xz == 1, sa_at.z == Sym.lift(sa).z(),
                    z3.Implies(xz == 1, a_at.z == 0), z3.Implies(a_at.z == 0, xz == 1),
                    z3.Implies(xz == -1, a_at.z == P.z), z3.Implies(a_at.z == P.z, xz == -1),
                    sa_at.z <= a_at.z, xz >= 1 - a_at.z * a_at.z / 2]
            xdeps = set(x.atoms()) | {P.id} | set(Sym.lift(sa).atoms())
            a_at.axioms = base
            sa_at.axioms = base
            a_at.deps = tuple(xdeps | {sa_at.id})
            sa_at.deps = tuple(xdeps | {a_at.id})
            S.add_sqrt_hint(ang)
            # normal-form rule  l2^2 -> ang^2 - l0^2 - l1^2   (so that Norm(Log R) reduces to ang)
            S.RULES[at[2].id] = S.psub(S.pmul(ang.n, ang.n), S.padd(S.pmul(l[0].n, l[0].n), S.pmul(l[1].n, l[1].n)))
            ax = [at[0].z * at[0].z + at[1].z * at[1].z + at[2].z * at[2].z == a_at.z * a_at.z]
            for a in at:
                ax += [a.z <= P.z, a.z >= -P.z]
            # Rodrigues: R = I + (sin ang / ang) [l] + ((1 - cos ang) / ang^2) [l]^2, stated division-free over Z3 terms
            lz = [a.z for a in at]
            K = [[0, -lz[2], lz[1]], [lz[2], 0, -lz[0]], [-lz[1], lz[0], 0]]
            a2 = a_at.z * a_at.z
            deps = set(xdeps) | {a_at.id, sa_at.id}
            for i in range(3):
                for j in range(3):
                    kk = sum(K[i][kx] * K[kx][j] for kx in range(3))
                    rij = Sym.lift(R[i, j])
                    deps |= rij.atoms()
                    ax.append((rij.z() - (1 if i == j else 0)) * a2 == sa_at.z * a_at.z * K[i][j] + (1 - xz) * kk)
            for a in at:
                a.axioms = ax
                a.deps = tuple(deps | set(b.id for b in at if b is not a))
        so3 = np.array([[0, -l[2], l[1]], [l[2], 0, -l[0]], [-l[1], l[0], 0]])
        t['log'][k] = so3
        t['exp'][('L', at[0].id, at[1].id, at[2].id)] = R.copy()
        t['uses'] += 1
        return so3.copy()

    def _atom_id(x, sign):
        """x == sign * (single atom)  -> atom id or None"""
        if not isinstance(x, Sym) or x.f or len(x.n) != 1:
            return None
        (m, c), = x.n.items()
        if c != sign or len(m) != 1 or m[0][1] != 1:
            return None
        return m[0][0]

    def MatrixExp3(so3mat):
        so3mat = np.asarray(so3mat)
        v = [so3mat[2][1], so3mat[0][2], so3mat[1][0]]
        t = _tables()
        for sign in (1, -1):
            ids = [_atom_id(x, sign) for x in v]
            if None not in ids:
                R = t['exp'].get(('L', ids[0], ids[1], ids[2]))
                if R is not None:
                    t['uses'] += 1
                    return R.copy() if sign == 1 else R.T.copy()
        R = real_exp(so3mat)
        if any(isinstance(x, Sym) and x.const_value() is None for x in v):
            t['exp'][_key(np.asarray(R))] = v
        return R

    real_exp6 = mods[0].MatrixExp6
    real_log6 = mods[0].MatrixLog6

    def MatrixLog6(T):
        """Log6 of a composed (non-primitive) rigid transform: fresh twist V with Exp6([V]) = T  (C01 c)"""
        T = np.asarray(T)
        sym_entries = [x for x in T[0:3, 0:3].reshape(-1) if isinstance(x, Sym) and x.const_value() is None]
        if not sym_entries or not _is_orthonormal(T[0:3, 0:3]):
            return real_log6(T)
        last = [Sym.lift(x) - c for x, c in zip(T[3, :], (0, 0, 0, 1))]
        if any(not d.is_zero() for d in last):
            return real_log6(T)
        t = _tables()
        k = ('T',) + _key(T)
        hit = t['log'].get(k)
        if hit is not None:
            return hit.copy()
        n = t['n']
        t['n'] += 1
        so3 = MatrixLog3(T[0:3, 0:3])
        import hashlib
        hk = hashlib.md5(repr(k).encode()).hexdigest()[:10]
        at = [S.new_atom('Log6v_%s_%d' % (hk, i), 'var') for i in range(3)]
        v = [Sym.atom(a) for a in at]
        se3 = np.zeros((4, 4))
        se3[0:3, 0:3] = so3
        se3[0:3, 3] = np.array(v)
        t['log'][k] = se3
        t['exp'][('T', S.pkey(Sym.lift(so3[2][1]).n), S.pkey(Sym.lift(so3[0][2]).n), S.pkey(Sym.lift(so3[1][0]).n),
                  at[0].id, at[1].id, at[2].id)] = T.copy()
        t['uses'] += 1
        return se3.copy()

    def MatrixExp6(se3mat):
        se3mat = np.asarray(se3mat)
        t = _tables()
        ids = [_atom_id(x, 1) for x in se3mat[0:3, 3]]
        if None not in ids:
            key = ('T', S.pkey(Sym.lift(se3mat[2][1]).n), S.pkey(Sym.lift(se3mat[0][2]).n),
                   S.pkey(Sym.lift(se3mat[1][0]).n), ids[0], ids[1], ids[2])
            T = t['exp'].get(key)
            if T is not None:
                t['uses'] += 1
                return T.copy()
        return real_exp6(se3mat)

    for m in mods:
        m.MatrixLog3 = MatrixLog3
        m.MatrixExp3 = MatrixExp3
        m.MatrixLog6 = MatrixLog6
        m.MatrixExp6 = MatrixExp6
    symnp.StubLog.note('summary: MatrixLog3/MatrixExp3 with the contracts proved in C01')
