"""Symbolic scalar layer: exact rational functions over atoms, reduced modulo the atoms' defining
relations, with a Z3 term for every value.  See DESIGN.md section 3.1.

Monomial  = tuple of (atom_id, exp) sorted by atom_id DESCENDING; () is 1.  Python tuple order on
            this representation is the lex order with larger atom ids more significant.
Poly      = dict monomial -> coefficient (int or Fraction, never 0).
Sym       = num/den, both Poly, den not identically 0 (den == ONE whenever den is constant).
"""
from fractions import Fraction
import math
import z3

# ----------------------------------------------------------------------------------------------
# atoms
# ----------------------------------------------------------------------------------------------

class Atom:
    __slots__ = ('id', 'name', 'kind', 'z', 'axioms', 'nonneg', 'data', 'deps')

    def __init__(self, id, name, kind, data=None):
        self.id = id
        self.name = name
        self.kind = kind
        self.z = z3.Real(name)
        self.axioms = []      # z3 BoolRefs, definitional facts (active once the atom is used on a path)
        self.nonneg = False
        self.data = data
        self.deps = ()        # atom ids whose axioms must be active too

    def __repr__(self):
        return self.name


ATOMS = []          # id -> Atom
ATOM_BY_NAME = {}
RULES = {}          # atom id -> Poly for atom**2
_MULCACHE = {}
_ACTIVATE_HOOK = [None]   # set by engine: called with atom when used


def reset_registry():
    ATOMS.clear(); ATOM_BY_NAME.clear(); RULES.clear(); _MULCACHE.clear()
    _SQRT_HINTS.clear(); _TRIG_CACHE.clear(); _FACTORS.clear(); _FACTOR_POLY.clear()


def new_atom(name, kind, data=None):
    a = ATOM_BY_NAME.get(name)
    if a is None:
        a = Atom(len(ATOMS), name, kind, data)
        ATOMS.append(a)
        ATOM_BY_NAME[name] = a
    return a


def touch(a):
    # axioms are selected per query from the atoms that occur in it (engine.axioms_for), so
    # nothing needs to be recorded here
    return None


# ----------------------------------------------------------------------------------------------
# polynomials
# ----------------------------------------------------------------------------------------------

ONE = {(): 1}
ZERO = {}


def _nc(c):
    if isinstance(c, Fraction) and c.denominator == 1:
        return c.numerator
    return c


def to_frac(x):
    """Exact rational value of a concrete number (float -> the double's exact value)."""
    if isinstance(x, Fraction):
        return _nc(x)
    if isinstance(x, bool):
        return int(x)
    if isinstance(x, int):
        return x
    if isinstance(x, float):
        if x != x or x in (float('inf'), float('-inf')):
            raise NonFinite(x)
        if x == int(x) and abs(x) < 1 << 53:
            return int(x)
        return Fraction(x)
    # numpy scalars
    try:
        import numpy as _np
        if isinstance(x, _np.integer):
            return int(x)
        if isinstance(x, _np.floating):
            return to_frac(float(x))
        if isinstance(x, _np.bool_):
            return int(bool(x))
    except ImportError:
        pass
    raise TypeError('not a concrete number: %r' % (x,))


class NonFinite(ArithmeticError):
    pass


def mmul(a, b):
    """Multiply two monomials (merge of descending-id sorted tuples)."""
    if not a:
        return b
    if not b:
        return a
    out = []
    i = j = 0
    la, lb = len(a), len(b)
    while i < la and j < lb:
        ia, ea = a[i]
        ib, eb = b[j]
        if ia == ib:
            out.append((ia, ea + eb)); i += 1; j += 1
        elif ia > ib:
            out.append(a[i]); i += 1
        else:
            out.append(b[j]); j += 1
    if i < la:
        out.extend(a[i:])
    if j < lb:
        out.extend(b[j:])
    return tuple(out)


def _reduce_mono(m):
    """Normal form of a monomial modulo the square rules -> Poly."""
    for k, (i, e) in enumerate(m):
        if e >= 2 and i in RULES:
            if e > 2:
                rest = m[:k] + ((i, e - 2),) + m[k + 1:]
            else:
                rest = m[:k] + m[k + 1:]
            return pmul({rest: 1}, RULES[i])
    return {m: 1}


def _mm(a, b):
    """monomial * monomial -> (mono, None) if irreducible else (None, Poly)."""
    key = (a, b)
    r = _MULCACHE.get(key)
    if r is None:
        m = mmul(a, b)
        need = False
        for i, e in m:
            if e >= 2 and i in RULES:
                need = True
                break
        r = (None, _reduce_mono(m)) if need else (m, None)
        if len(_MULCACHE) > 2000000:
            _MULCACHE.clear()
        _MULCACHE[key] = r
    return r


def padd(a, b):
    if not a:
        return b
    if not b:
        return a
    if len(a) < len(b):
        a, b = b, a
    out = dict(a)
    for m, c in b.items():
        v = out.get(m)
        if v is None:
            out[m] = c
        else:
            v = v + c
            if v == 0:
                del out[m]
            else:
                out[m] = _nc(v)
    return out


def pneg(a):
    return {m: -c for m, c in a.items()}


def psub(a, b):
    return padd(a, pneg(b))


def pscale(a, k):
    if k == 0:
        return {}
    if k == 1:
        return a
    return {m: _nc(c * k) for m, c in a.items()}


def pmul(a, b):
    if not a or not b:
        return {}
    if len(a) == 1:
        (ma, ca), = a.items()
        if not ma:
            return pscale(b, ca)
    if len(b) == 1:
        (mb, cb), = b.items()
        if not mb:
            return pscale(a, cb)
    out = {}
    get = out.get
    for ma, ca in a.items():
        for mb, cb in b.items():
            c = ca * cb
            m, p = _mm(ma, mb)
            if p is None:
                v = get(m)
                if v is None:
                    out[m] = c
                else:
                    v = v + c
                    if v == 0:
                        del out[m]
                    else:
                        out[m] = v
            else:
                for m2, c2 in p.items():
                    cc = c * c2
                    v = get(m2)
                    if v is None:
                        out[m2] = cc
                    else:
                        v = v + cc
                        if v == 0:
                            del out[m2]
                        else:
                            out[m2] = v
    for m, c in out.items():
        if isinstance(c, Fraction) and c.denominator == 1:
            out[m] = c.numerator
    return out


def pconst(a):
    """Constant value of a Poly, or None if it is not constant."""
    if not a:
        return 0
    if len(a) == 1:
        c = a.get(())
        if c is not None:
            return c
    return None


def patoms(a):
    s = set()
    for m in a:
        for i, _ in m:
            s.add(i)
    return s


def pvar(i):
    return {((i, 1),): 1}


def p_from_const(c):
    c = _nc(c)
    return {(): c} if c != 0 else {}


def pstr(a):
    if not a:
        return '0'
    parts = []
    for m in sorted(a, reverse=True):
        c = a[m]
        mon = '*'.join(ATOMS[i].name + ('^%d' % e if e != 1 else '') for i, e in m)
        if not mon:
            parts.append(str(c))
        elif c == 1:
            parts.append(mon)
        elif c == -1:
            parts.append('-' + mon)
        else:
            parts.append('%s*%s' % (c, mon))
    return ' + '.join(parts)


def pkey(a):
    """Hashable canonical key of a poly."""
    return tuple(sorted(a.items()))


def p_monomial_content(a):
    """gcd monomial of all terms (as dict id->exp)."""
    it = iter(a)
    g = dict(next(it))
    for m in it:
        if not g:
            break
        d = dict(m)
        for i in list(g):
            e = d.get(i, 0)
            if e < g[i]:
                if e == 0:
                    del g[i]
                else:
                    g[i] = e
    return g


def p_div_mono(a, g):
    """divide every term by monomial g (dict id->exp); caller guarantees divisibility."""
    out = {}
    for m, c in a.items():
        nm = tuple((i, e - g.get(i, 0)) for i, e in m if e - g.get(i, 0) > 0)
        out[nm] = c
    return out


def p_z3(a):
    if not a:
        return z3.RealVal(0)
    terms = []
    for m, c in a.items():
        fs = []
        for i, e in m:
            at = ATOMS[i]
            touch(at)
            fs.append(at.z if e == 1 else at.z ** e)
        if c != 1 or not fs:
            fs.insert(0, z3.RealVal(str(c)))
        t = fs[0]
        for f in fs[1:]:
            t = t * f
        terms.append(t)
    return z3.Sum(terms) if len(terms) > 1 else terms[0]


def p_eval(a, env):
    """numeric evaluation, env: atom id -> float"""
    tot = 0.0
    for m, c in a.items():
        v = float(c)
        for i, e in m:
            v *= env[i] ** e
        tot += v
    return tot


# ----------------------------------------------------------------------------------------------
# symbolic booleans
# ----------------------------------------------------------------------------------------------

_DECIDE_HOOK = [None]


class SymBool:
    __slots__ = ('z', 'atoms')
    __array_priority__ = 0

    def __init__(self, z, atoms=frozenset()):
        self.z = z
        self.atoms = atoms

    def __bool__(self):
        h = _DECIDE_HOOK[0]
        if h is None:
            raise RuntimeError('symbolic branch outside an exploration context')
        return h(self)

    def __and__(self, o):
        if isinstance(o, SymBool):
            return SymBool(z3.And(self.z, o.z), self.atoms | o.atoms)
        return self if o else False
    __rand__ = __and__

    def __or__(self, o):
        if isinstance(o, SymBool):
            return SymBool(z3.Or(self.z, o.z), self.atoms | o.atoms)
        return True if o else self
    __ror__ = __or__

    def __invert__(self):
        return SymBool(z3.Not(self.z), self.atoms)

    def __xor__(self, o):
        if isinstance(o, SymBool):
            return SymBool(z3.Xor(self.z, o.z), self.atoms | o.atoms)
        return ~self if o else self
    __rxor__ = __xor__

    def __eq__(self, o):
        if isinstance(o, SymBool):
            return SymBool(self.z == o.z, self.atoms | o.atoms)
        if isinstance(o, (bool, int)):
            return self if o else ~self
        return NotImplemented

    def __ne__(self, o):
        r = self.__eq__(o)
        return r if r is NotImplemented else ~r

    __hash__ = object.__hash__

    def __repr__(self):
        return 'SymBool(%s)' % self.z


def sb_and(xs):
    zs = []
    at = frozenset()
    for x in xs:
        if isinstance(x, SymBool):
            zs.append(x.z)
            at = at | x.atoms
        elif not x:
            return False
    if not zs:
        return True
    return SymBool(z3.And(zs) if len(zs) > 1 else zs[0], at)


def sb_or(xs):
    zs = []
    at = frozenset()
    for x in xs:
        if isinstance(x, SymBool):
            zs.append(x.z)
            at = at | x.atoms
        elif x:
            return True
    if not zs:
        return False
    return SymBool(z3.Or(zs) if len(zs) > 1 else zs[0], at)


def sb_not(x):
    if isinstance(x, SymBool):
        return ~x
    return not x


def zbool(x):
    if isinstance(x, SymBool):
        return x.z
    return z3.BoolVal(bool(x))


# ----------------------------------------------------------------------------------------------
# Sym
# ----------------------------------------------------------------------------------------------

_DIV_HOOK = [None]     # engine: called with (den Sym) on division by a non-constant
FORMAT_HOOK = [None]   # harness: (sym, spec) -> str token
ROUND_HOOK = [None]    # harness: (sym, ndigits) -> object


_FACTORS = {}      # pkey -> fid
_FACTOR_POLY = []  # fid -> poly (leading coefficient 1, no monomial content unless a bare atom)


def _fid(p):
    k = pkey(p)
    i = _FACTORS.get(k)
    if i is None:
        i = len(_FACTOR_POLY)
        _FACTORS[k] = i
        _FACTOR_POLY.append(p)
    return i


def _split_poly(p):
    """p = c * prod(atom^e) * q  with q multi-term, leading coeff 1, no monomial content (or q == ONE)
    -> (c, {atom_id: e}, q)"""
    if len(p) == 1:
        (m, c), = p.items()
        return c, dict(m), ONE
    g = p_monomial_content(p)
    q = p_div_mono(p, g) if g else p
    lead = q[max(q)]
    if lead != 1:
        q = pscale(q, Fraction(1) / lead)
    return lead, g, q


def _fmerge(fa, fb, mode):
    """merge two factor tuples ((fid, exp), ...) sorted by fid; mode 'sum' or 'max'"""
    if not fa:
        return fb
    if not fb:
        return fa
    d = dict(fa)
    for i, e in fb:
        if i in d:
            d[i] = d[i] + e if mode == 'sum' else max(d[i], e)
        else:
            d[i] = e
    return tuple(sorted(d.items()))


def _fexpand(f):
    r = ONE
    for i, e in f:
        p = _FACTOR_POLY[i]
        for _ in range(e):
            r = pmul(r, p)
    return r


def _fdiff(L, f):
    """L / f as a polynomial (L is a multiple of f)"""
    d = dict(f)
    r = ONE
    for i, e in L:
        k = e - d.get(i, 0)
        p = _FACTOR_POLY[i]
        for _ in range(k):
            r = pmul(r, p)
    return r


class Sym:
    """n / prod(factor^exp); f == () means denominator 1"""
    __slots__ = ('n', 'f', '_z', '_d')

    def __init__(self, n, d=ONE, f=None):
        self.n = n
        self._z = None
        self._d = None
        if f is not None:
            self.f = f
        elif d is ONE:
            self.f = ()
        else:
            t = Sym.make(n, d)
            self.n, self.f = t.n, t.f

    @property
    def d(self):
        """expanded denominator polynomial (the object ONE when there is none)"""
        if not self.f:
            return ONE
        if self._d is None:
            self._d = _fexpand(self.f)
        return self._d

    # -- construction helpers --------------------------------------------------------------
    @staticmethod
    def const(c):
        return Sym(p_from_const(to_frac(c)))

    @staticmethod
    def atom(a):
        return Sym(pvar(a.id))

    @staticmethod
    def make(n, d):
        """n / d for a polynomial d"""
        if not n:
            return Sym(ZERO)
        if d is ONE:
            return Sym(n)
        dc = pconst(d)
        if dc is not None:
            if dc == 0:
                raise ZeroDivisionError('symbolic division by exact zero')
            return Sym(pscale(n, Fraction(1) / dc) if dc != 1 else n)
        c, g, q = _split_poly(d)
        f = []
        for i, e in g.items():
            f.append((_fid(pvar(i)), e))
        if q is not ONE:
            f.append((_fid(q), 1))
        if c != 1:
            n = pscale(n, Fraction(1) / c)
        return Sym._norm(n, tuple(sorted(f)))

    @staticmethod
    def _norm(n, f):
        """cancel what is cheap to cancel between numerator n and factor tuple f"""
        if not n:
            return Sym(ZERO)
        if not f:
            return Sym(n)
        g = None
        out = []
        changed = False
        # squares of atoms that have a defining relation (sqrt atoms, cos atoms, constrained inputs) are rewritten in
        # the denominator too:  r^2 -> its polynomial, so that it can cancel against the numerator
        extra = []
        f2 = []
        for i, e in f:
            p = _FACTOR_POLY[i]
            if len(p) == 1 and e >= 2:
                (m, _), = p.items()
                aid = m[0][0]
                if aid in RULES and ATOMS[aid].kind != 'sign':
                    k2, rem = divmod(e, 2)
                    c, gg, q = _split_poly(RULES[aid])
                    if c != 1:
                        n = pscale(n, Fraction(1) / (Fraction(c) ** k2))
                    for j, ej in gg.items():
                        extra.append((_fid(pvar(j)), ej * k2))
                    if q is not ONE:
                        extra.append((_fid(q), k2))
                    if rem:
                        f2.append((i, rem))
                    continue
            f2.append((i, e))
        if extra:
            f = _fmerge(tuple(sorted(f2)), tuple(sorted(_fmerge((), tuple(extra), 'sum'))), 'sum') if False else None
            d = {}
            for i, e in f2 + extra:
                d[i] = d.get(i, 0) + e
            f = tuple(sorted(d.items()))
            return Sym._norm(n, f)
        for i, e in f:
            p = _FACTOR_POLY[i]
            if len(p) == 1:
                # bare atom factor
                (m, _), = p.items()
                aid = m[0][0]
                if ATOMS[aid].kind == 'sign':
                    # 1/sigma == sigma
                    if e % 2:
                        n = pmul(n, pvar(aid))
                    changed = True
                    continue
                if g is None:
                    g = p_monomial_content(n)
                k = min(g.get(aid, 0), e)
                if k:
                    n = p_div_mono(n, {aid: k})
                    g[aid] -= k
                    e -= k
                    changed = True
                if e:
                    out.append((i, e))
            else:
                # multi-term factor: proportional numerator cancels
                while e and len(n) == len(p):
                    m0 = next(iter(p))
                    if m0 not in n:
                        break
                    k = Fraction(n[m0]) / p[m0]
                    if all((m in n and n[m] == k * c) for m, c in p.items()):
                        n = p_from_const(k)
                        e -= 1
                        changed = True
                    else:
                        break
                if e and len(n) > len(p) and len(p) <= 40 and len(n) <= 3000:
                    q = p_exact_div(n, p)
                    while q is not None and e:
                        n = q
                        e -= 1
                        changed = True
                        q = p_exact_div(n, p) if e and len(n) > len(p) else None
                if e:
                    out.append((i, e))
        return Sym(n, f=tuple(out))

    # -- predicates -----------------------------------------------------------------------------
    def is_const(self):
        return (not self.f and pconst(self.n) is not None) or (not self.n)

    def const_value(self):
        if not self.n:
            return 0
        if not self.f:
            return pconst(self.n)
        return None

    def is_zero(self):
        return not self.n

    def atoms(self):
        s = patoms(self.n)
        for i, _ in self.f:
            s |= patoms(_FACTOR_POLY[i])
        return s

    # -- z3 -------------------------------------------------------------------------------------
    def z(self):
        if self._z is None:
            zn = p_z3(self.n)
            if not self.f:
                self._z = zn
            else:
                zd = None
                for i, e in self.f:
                    t = p_z3(_FACTOR_POLY[i])
                    if e != 1:
                        t = t ** e
                    zd = t if zd is None else zd * t
                self._z = zn / zd
        return self._z

    # -- arithmetic -----------------------------------------------------------------------------
    @staticmethod
    def lift(x):
        if isinstance(x, Sym):
            return x
        return Sym.const(x)

    def _coerce(self, o):
        if isinstance(o, Sym):
            return o
        if isinstance(o, (int, float, Fraction)):
            return Sym.const(o)
        try:
            import numpy as _np
            if isinstance(o, _np.ndarray):
                return None
            if isinstance(o, (_np.integer, _np.floating, _np.bool_)):
                return Sym.const(o)
        except ImportError:
            pass
        return None

    def __add__(self, o):
        o = self._coerce(o)
        if o is None:
            return NotImplemented
        if not o.n:
            return self
        if not self.n:
            return o
        if self.f == o.f:
            if not self.f:
                return Sym(padd(self.n, o.n))
            return Sym._norm(padd(self.n, o.n), self.f)
        L = _fmerge(self.f, o.f, 'max')
        a = self.n if self.f == L else pmul(self.n, _fdiff(L, self.f))
        b = o.n if o.f == L else pmul(o.n, _fdiff(L, o.f))
        return Sym._norm(padd(a, b), L)

    __radd__ = __add__

    def __neg__(self):
        return Sym(pneg(self.n), f=self.f)

    def __pos__(self):
        return self

    def __sub__(self, o):
        o = self._coerce(o)
        if o is None:
            return NotImplemented
        return self + (-o)

    def __rsub__(self, o):
        o = self._coerce(o)
        if o is None:
            return NotImplemented
        return o + (-self)

    def __mul__(self, o):
        o = self._coerce(o)
        if o is None:
            return NotImplemented
        if not self.n or not o.n:
            return Sym(ZERO)
        if not self.f and not o.f:
            return Sym(pmul(self.n, o.n))
        # cancel a whole numerator against an equal multi-term factor before multiplying out
        a_n, a_f, b_n, b_f = self.n, self.f, o.n, o.f
        if b_f and len(a_n) > 1:
            a_n, b_f = _cancel_whole(a_n, b_f)
        if a_f and len(b_n) > 1:
            b_n, a_f = _cancel_whole(b_n, a_f)
        return Sym._norm(pmul(a_n, b_n), _fmerge(a_f, b_f, 'sum'))

    __rmul__ = __mul__

    def inverse(self):
        if not self.n:
            raise ZeroDivisionError('symbolic division by exact zero')
        c = pconst(self.n)
        if c is not None:
            return Sym(pscale(self.d, Fraction(1) / c))
        h = _DIV_HOOK[0]
        if h is not None:
            h(Sym(self.n))
        c, g, q = _split_poly(self.n)
        f = [(_fid(pvar(i)), e) for i, e in g.items()]
        if q is not ONE:
            f.append((_fid(q), 1))
        num = self.d
        if c != 1:
            num = pscale(num, Fraction(1) / c)
        return Sym._norm(num, tuple(sorted(f)))

    def __truediv__(self, o):
        o = self._coerce(o)
        if o is None:
            return NotImplemented
        if not o.f:
            c = pconst(o.n)
            if c is not None:
                if c == 0:
                    raise ZeroDivisionError('division by exact zero')
                return Sym(pscale(self.n, Fraction(1) / c), f=self.f)
        return self * o.inverse()

    def __rtruediv__(self, o):
        o = self._coerce(o)
        if o is None:
            return NotImplemented
        return o * self.inverse()

    def __pow__(self, k):
        if isinstance(k, Sym):
            kc = k.const_value()
            if kc is None:
                raise TypeError('symbolic exponent')
            k = kc
        if isinstance(k, float) and k == int(k):
            k = int(k)
        if isinstance(k, Fraction) and k.denominator == 1:
            k = int(k)
        if isinstance(k, (Fraction, float)) and Fraction(k) == Fraction(1, 2):
            return sym_sqrt(self)
        if not isinstance(k, int):
            try:
                k2 = int(k)
                if k2 != k:
                    raise TypeError
                k = k2
            except Exception:
                raise TypeError('unsupported exponent %r' % (k,))
        if k < 0:
            return (self ** (-k)).inverse()
        r = Sym(ONE)
        b = self
        while k:
            if k & 1:
                r = r * b
            k >>= 1
            if k:
                b = b * b
        return r

    def __rpow__(self, o):
        raise TypeError('symbolic exponent')

    def __abs__(self):
        return sym_abs(self)

    # -- comparisons ------------------------------------------------------------------------------
    def _cmp(self, o, op):
        if isinstance(o, float) and (o != o or o in (math.inf, -math.inf)):
            # a real number against nan / +-inf
            if o != o:
                return op == '!='
            if o > 0:
                return op in ('<', '<=', '!=')
            return op in ('>', '>=', '!=')
        o = self._coerce(o)
        if o is None:
            return NotImplemented
        diff = self - o
        c = diff.const_value()
        if c is not None:
            return {'<': c < 0, '<=': c <= 0, '>': c > 0, '>=': c >= 0, '==': c == 0, '!=': c != 0}[op]
        sg = closed_sign(diff)
        if sg is not None:
            return {'<': sg < 0, '<=': sg < 0, '>': sg > 0, '>=': sg > 0, '==': False, '!=': True}[op]
        a, b = self.z(), o.z()
        at = frozenset(self.atoms() | o.atoms())
        if op == '<':
            return SymBool(a < b, at)
        if op == '<=':
            return SymBool(a <= b, at)
        if op == '>':
            return SymBool(a > b, at)
        if op == '>=':
            return SymBool(a >= b, at)
        if op == '==':
            return SymBool(a == b, at)
        return SymBool(a != b, at)

    def __lt__(self, o): return self._cmp(o, '<')
    def __le__(self, o): return self._cmp(o, '<=')
    def __gt__(self, o): return self._cmp(o, '>')
    def __ge__(self, o): return self._cmp(o, '>=')
    def __eq__(self, o): return self._cmp(o, '==')
    def __ne__(self, o): return self._cmp(o, '!=')
    __hash__ = object.__hash__

    def __bool__(self):
        r = (self != 0)
        return bool(r)

    def _numeric_const(self):
        """value of an expression built only from constant atoms (pi, sqrt of constants, their trig), else None"""
        c = self.const_value()
        if c is not None:
            return c
        try:
            return sym_value(self, {})
        except KeyError:
            return None

    def __float__(self):
        c = self._numeric_const()
        if c is None:
            raise SymbolicLeak('float() of a symbolic value: %s' % self)
        return float(c)

    def __int__(self):
        c = self._numeric_const()
        if c is None:
            raise SymbolicLeak('int() of a symbolic value: %s' % self)
        return int(c)

    def __index__(self):
        c = self.const_value()
        if c is None or Fraction(c).denominator != 1:
            raise SymbolicLeak('index from a symbolic value: %s' % self)
        return int(c)

    def __round__(self, nd=None):
        c = self.const_value()
        if c is None:
            c = self._numeric_const()
            if c is not None:
                return round(c, nd) if nd is not None else round(c)
        if c is None:
            h = ROUND_HOOK[0]
            if h is not None:
                return h(self, nd)
            raise SymbolicLeak('round() of a symbolic value')
        return round(Fraction(c), nd) if nd is not None else round(Fraction(c))

    def __repr__(self):
        if self.d is ONE:
            return 'Sym(%s)' % pstr(self.n)
        return 'Sym((%s)/(%s))' % (pstr(self.n), pstr(self.d))

    def __format__(self, spec):
        h = FORMAT_HOOK[0]
        if h is not None:
            return h(self, spec)
        c = self.const_value()
        if c is not None:
            return format(float(c), spec)
        return repr(self)

    # -- methods numpy ufuncs dispatch to on object arrays --------------------------------------
    def sqrt(self): return sym_sqrt(self)
    def sin(self): return sym_sin(self)
    def cos(self): return sym_cos(self)
    def tan(self):
        return sym_tan(self)
    def arccos(self): return sym_arccos(self)
    def conjugate(self): return self
    conj = conjugate

    def copy(self):
        return self

    @property
    def real(self):
        return self

    @property
    def imag(self):
        return Sym(ZERO)

    # modulo: see engine.sym_mod
    def __mod__(self, o):
        return sym_mod(self, o)

    def __rmod__(self, o):
        return sym_mod(Sym.lift(o), self)

    def __floordiv__(self, o):
        return sym_floordiv(self, Sym.lift(o))

    def __rfloordiv__(self, o):
        return sym_floordiv(Sym.lift(o), self)


class Infinite:
    """tan(pi/2): the float code only ever divides by it (1/tan = 6e-17, i.e. the limit 0)"""
    def __rtruediv__(self, o):
        return Sym(ZERO)

    def __truediv__(self, o):
        return self

    def __mul__(self, o):
        return self
    __rmul__ = __mul__

    def __repr__(self):
        return 'Infinite'


def _cancel_whole(n, f):
    """if the polynomial n is proportional to one of the multi-term factors in f, cancel it"""
    for idx, (i, e) in enumerate(f):
        p = _FACTOR_POLY[i]
        if len(p) == len(n) and len(p) > 1:
            m0 = next(iter(p))
            if m0 in n:
                k = Fraction(n[m0]) / p[m0]
                if all((m in n and n[m] == k * c) for m, c in p.items()):
                    nf = f[:idx] + (((i, e - 1),) if e > 1 else ()) + f[idx + 1:]
                    return p_from_const(k), nf
    return n, f


class SymbolicLeak(TypeError):
    """A symbolic value reached a place that needs a concrete number."""


def p_exact_div(n, d):
    """Exact polynomial division n/d (plain polynomial arithmetic, lex order); None if not exact."""
    if len(d) == 1:
        return None
    if len(n) < len(d) and len(d) > 1:
        # quotient with >=1 term times d has (generically) at least... not reliable; still try if small
        pass
    if len(n) > 4000 or len(d) > 200:
        return None
    ltd = max(d)
    cd = d[ltd]
    dd = dict(ltd)
    rem = dict(n)
    q = {}
    steps = 0
    while rem:
        steps += 1
        if steps > 5000:
            return None
        lt = max(rem)
        dl = dict(lt)
        ok = True
        for i, e in dd.items():
            if dl.get(i, 0) < e:
                ok = False
                break
        if not ok:
            return None
        qm = tuple((i, e - dd.get(i, 0)) for i, e in lt if e - dd.get(i, 0) > 0)
        qc = Fraction(rem[lt]) / cd
        q[qm] = _nc(qc)
        # rem -= qc*qm*d   (plain product, then reduction would change things: use reduced product)
        sub = pmul({qm: qc}, d)
        rem = psub(rem, sub)
        if lt in rem:
            return None     # reduction interfered
    return q


# ----------------------------------------------------------------------------------------------
# abs / sign atoms
# ----------------------------------------------------------------------------------------------

def sign_atom_for(x_poly_key, x_sym):
    """sigma with sigma^2 = 1 and sigma*x >= 0."""
    name = 'sg{%s}' % pstr(x_sym.n)
    a = ATOM_BY_NAME.get(name)
    if a is None:
        a = new_atom(name, 'sign', x_sym)
        RULES[a.id] = ONE
        a.axioms = [z3.Or(a.z == 1, a.z == -1), a.z * p_z3(x_sym.n) >= 0]
        a.deps = tuple(x_sym.atoms())
    touch(a)
    return a


def _known_nonneg_poly(p):
    """cheap syntactic check: every term has a positive coefficient and only nonneg atoms / even powers."""
    for m, c in p.items():
        if c < 0:
            return False
        for i, e in m:
            if e % 2 and not ATOMS[i].nonneg:
                return False
    return True


def sym_abs(x):
    if not isinstance(x, Sym):
        return abs(x)
    c = x.const_value()
    if c is not None:
        return Sym.const(abs(c))
    if _known_nonneg_poly(x.n) and _known_nonneg_poly(x.d):
        return x
    if _known_nonneg_poly(pneg(x.n)) and _known_nonneg_poly(x.d):
        return -x
    # |n/d| = |n|/|d|
    return _abs_poly(x.n) / _abs_poly(x.d) if x.d is not ONE else _abs_poly(x.n)


def _abs_poly(p):
    c = pconst(p)
    if c is not None:
        return Sym.const(abs(c))
    if _known_nonneg_poly(p):
        return Sym(p)
    if _known_nonneg_poly(pneg(p)):
        return Sym(pneg(p))
    # factor out monomial content and numeric sign so that |k*m*q| = |k|*|m|*|q|
    if len(p) == 1:
        (m, c), = p.items()
        r = Sym.const(abs(c))
        for i, e in m:
            at = ATOMS[i]
            if at.nonneg or e % 2 == 0:
                r = r * Sym({((i, e),): 1})
            elif at.kind == 'sign':
                pass   # |sigma| = 1
            else:
                s = sign_atom_for(None, Sym(pvar(i)))
                r = r * Sym({((i, e),): 1}) * Sym(pvar(s.id))
        return r
    # canonical sign: make the leading coefficient positive so that |p| and |-p| share an atom
    lead = p[max(p)]
    q = p if lead > 0 else pneg(p)
    s = sign_atom_for(None, Sym(q))
    return Sym(q) * Sym(pvar(s.id))


# ----------------------------------------------------------------------------------------------
# sqrt
# ----------------------------------------------------------------------------------------------

_SQRT_HINTS = []     # list of Sym known to be >= 0 (registered by harness / arccos)


def add_sqrt_hint(h):
    _SQRT_HINTS.append(h)


def _isqrt_frac(c):
    c = Fraction(c)
    if c < 0:
        return None
    a, b = c.numerator, c.denominator
    ra, rb = math.isqrt(a), math.isqrt(b)
    if ra * ra == a and rb * rb == b:
        return Fraction(ra, rb)
    return None


_SQRT_PROVER = [None]    # engine hook: prove(zexpr) -> bool, used for sign questions


def sym_sqrt(x):
    if not isinstance(x, Sym):
        x = Sym.const(x)
    c = x.const_value()
    if c is not None:
        if c < 0:
            raise NonFinite('sqrt of negative constant %s' % c)
        r = _isqrt_frac(c)
        if r is not None:
            return Sym.const(r)
        return _sqrt_atom(Sym.const(c))
    # hints: h*h == x ?
    for h in _SQRT_HINTS:
        # h.n^2 * x.d == x.n * h.d^2
        if (h.atoms() <= x.atoms() | _hint_extra(h)) and pmul(pmul(h.n, h.n), x.d) == pmul(x.n, pmul(h.d, h.d)):
            return h
    # solver-backed: does the current path imply x == h^2 for a hint h sharing atoms with x?
    pr = _SQRT_PROVER[0]
    if pr is not None and len(x.n) <= 60 and (not x.f or len(x.d) <= 60):
        xa = x.atoms()
        for h in [Sym(pvar(pi_atom().id))] + _SQRT_HINTS if any(ATOMS[i].kind == 'pi' for i in xa) else _SQRT_HINTS:
            if h.atoms() <= xa:
                # cheap numeric plausibility filter is not available here; ask the solver
                lhs = pmul(pmul(h.n, h.n), x.d)
                rhs = pmul(x.n, pmul(h.d, h.d))
                if pr(Sym(psub(lhs, rhs))):
                    return h
    # structural: single-term numerator & denominator
    if len(x.n) == 1 and len(x.d) == 1:
        r = _sqrt_monomial(x.n)
        rd = _sqrt_monomial(x.d)
        if r is not None and rd is not None:
            return r / rd
    # numerator = content * rest : sqrt(c * m^2 * rest)
    if x.d is ONE or len(x.d) == 1:
        g = p_monomial_content(x.n)
        ge = {i: e - (e % 2) for i, e in g.items() if e >= 2}
        if ge:
            rest = p_div_mono(x.n, ge)
            half = {(tuple(sorted(((i, e // 2) for i, e in ge.items()), reverse=True))): 1}
            outer = _abs_poly(half)
            inner = Sym.make(rest, x.d)
            return outer * sym_sqrt(inner)
    if x.d is not ONE:
        # sqrt(n/d) = sqrt(n*d)/|d|
        return sym_sqrt(Sym(pmul(x.n, x.d))) / _abs_poly(x.d)
    # pull out rational content so that sqrt(4*e) and sqrt(e) share an atom
    return _sqrt_atom(x)


def _hint_extra(h):
    return set()


def _sqrt_monomial(p):
    (m, c), = p.items()
    rc = _isqrt_frac(c) if c > 0 else None
    if c <= 0:
        return None
    if rc is None:
        rcs = _sqrt_atom(Sym.const(c))
    else:
        rcs = Sym.const(rc)
    odd = [(i, e) for i, e in m if e % 2]
    if odd:
        # allow odd powers only of atoms that are themselves not reducible: give up
        return None
    half = {tuple((i, e // 2) for i, e in m): 1}
    return rcs * _abs_poly(half)


def _sqrt_atom(x):
    """fresh atom r >= 0 with r^2 = x (x polynomial)."""
    # normalise numeric content: x = k * x0 with x0 having leading coeff 1
    lead = x.n[max(x.n)]
    k = Fraction(lead)
    if k < 0:
        k = -k
    rk = _isqrt_frac(k)
    if rk is not None and rk != 1 and len(x.n) > 0:
        x0 = Sym(pscale(x.n, Fraction(1) / k))
        return Sym.const(rk) * _sqrt_atom(x0)
    name = 'sqrt{%s}' % pstr(x.n)
    a = ATOM_BY_NAME.get(name)
    if a is None:
        a = new_atom(name, 'sqrt', x)
        a.nonneg = True
        RULES[a.id] = x.n
        a.axioms = [a.z >= 0, a.z * a.z == p_z3(x.n)]
        a.deps = tuple(x.atoms())
        # closed NEGATIVE radicand (numpy: nan, computed eagerly on a branch that is then not used): no defining axioms -
        # r^2 = negative would make every query mentioning the atom vacuously unsatisfiable
        try:
            xv = sym_value(x, {}) if x.const_value() is None else None
        except (KeyError, ZeroDivisionError, ValueError):
            xv = None
        if xv is not None and xv < -1e-9:
            a.axioms = []
            a.nonneg = False
            del RULES[a.id]
        cv = x.const_value()
        if cv is not None:
            f = math.sqrt(float(cv))
            lo, hi = Fraction(f) * (1 - Fraction(1, 10 ** 12)), Fraction(f) * (1 + Fraction(1, 10 ** 12))
            a.axioms += [a.z >= z3.RealVal(str(lo)), a.z <= z3.RealVal(str(hi))]
    touch(a)
    return Sym(pvar(a.id))


# ----------------------------------------------------------------------------------------------
# trigonometry
# ----------------------------------------------------------------------------------------------

_TRIG_CACHE = {}
PI_NAME = 'pi'


def pi_atom():
    a = ATOM_BY_NAME.get(PI_NAME)
    if a is None:
        a = new_atom(PI_NAME, 'pi')
        a.nonneg = True
        a.axioms = [a.z > z3.RealVal('3.14159265358979323'), a.z < z3.RealVal('3.14159265358979324')]
    touch(a)
    return a


def sym_pi():
    return Sym(pvar(pi_atom().id))


class AngleInfo:
    """data of an 'angle' atom: optional exact sin/cos Syms (e.g. from arccos), else s/c atoms."""
    __slots__ = ('sin', 'cos', 'lo', 'hi')

    def __init__(self):
        self.sin = None
        self.cos = None
        self.lo = None
        self.hi = None


def angle_atom(name, lo=None, hi=None, taylor=False):
    """register an angle variable theta with sin/cos atoms and the standard sound axioms."""
    a = ATOM_BY_NAME.get(name)
    if a is not None:
        touch(a)
        return a
    a = new_atom(name, 'angle', AngleInfo())
    s = new_atom('sin{%s}' % name, 'sin', a)
    c = new_atom('cos{%s}' % name, 'cos', a)
    RULES[c.id] = {(): 1, ((s.id, 2),): -1}
    a.data.sin = Sym(pvar(s.id))
    a.data.cos = Sym(pvar(c.id))
    a.data.lo, a.data.hi = lo, hi
    th, sz, cz = a.z, s.z, c.z
    ax = [sz * sz + cz * cz == 1]
    s.axioms = ax
    c.axioms = ax
    s.deps = (a.id,)
    c.deps = (a.id, s.id)
    a.axioms = []
    trig_axioms(a, th, sz, cz, lo, hi, taylor)
    touch(a)
    return a


def trig_axioms(a, th, sz, cz, lo, hi, taylor):
    """sound facts linking theta with its sin/cos atoms (attached to the sin atom: only active when used)."""
    P = pi_atom().z
    s_atom = ATOM_BY_NAME['sin{%s}' % a.name]
    facts = [
        z3.Implies(th == 0, z3.And(sz == 0, cz == 1)),
        z3.Implies(z3.And(th > 0, th < P), sz > 0),
        z3.Implies(z3.And(th < 0, th > -P), sz < 0),
        z3.Implies(z3.And(th > P, th < 2 * P), sz < 0),
        z3.Implies(z3.And(th < -P, th > -2 * P), sz > 0),
        z3.Implies(z3.Or(th == P, th == -P), z3.And(sz == 0, cz == -1)),
        z3.Implies(z3.Or(th == 2 * P, th == -2 * P), z3.And(sz == 0, cz == 1)),
        z3.Implies(z3.And(th > -P / 2, th < P / 2), cz > 0),
        z3.Implies(z3.And(th > P / 2, th < 3 * P / 2), cz < 0),
        z3.Implies(z3.And(th < -P / 2, th > -3 * P / 2), cz < 0),
        z3.Implies(z3.And(th > -2 * P, th < 2 * P, th != 0), cz < 1),
        z3.Implies(z3.And(th > -P, th < P), cz > -1),
    ]
    if taylor:
        t2 = th * th
        facts += [
            z3.Implies(th >= 0, z3.And(sz <= th, sz >= th - t2 * th / 6)),
            z3.Implies(th <= 0, z3.And(sz >= th, sz <= th - t2 * th / 6)),
            cz >= 1 - t2 / 2,
            cz <= 1 - t2 / 2 + t2 * t2 / 24,
        ]
    s_atom.axioms = s_atom.axioms + facts
    s_atom.deps = tuple(set(s_atom.deps) | {pi_atom().id})


def half_angle_atoms(at):
    """sin(a/2), cos(a/2) atoms of an angle atom, tied to sin a / cos a by the double-angle formulas"""
    name = at.name
    hs = ATOM_BY_NAME.get('sinh{%s}' % name)
    if hs is None:
        hs = new_atom('sinh{%s}' % name, 'sin', None)
        hc = new_atom('cosh{%s}' % name, 'cos', None)
        hs.data = Sym(pvar(at.id)) / 2
        hc.data = hs.data
        RULES[hc.id] = {(): 1, ((hs.id, 2),): -1}
        sa, ca = at.data.sin, at.data.cos
        ax = [hs.z * hs.z + hc.z * hc.z == 1, sa.z() == 2 * hs.z * hc.z, ca.z() == 1 - 2 * hs.z * hs.z]
        P = pi_atom().z
        ax += [z3.Implies(z3.And(at.z >= 0, at.z <= 2 * P), hs.z >= 0),
               z3.Implies(z3.And(at.z >= -P, at.z <= P), hc.z >= 0),
               z3.Implies(z3.And(at.z <= 0, at.z >= -2 * P), hs.z <= 0)]
        hs.axioms = ax
        hc.axioms = ax
        deps = set(sa.atoms() | ca.atoms() | {at.id, pi_atom().id})
        hs.deps = tuple(deps)
        hc.deps = tuple(deps | {hs.id})
    else:
        hc = ATOM_BY_NAME['cosh{%s}' % name]
    return hs, hc


def _multiple_angle(s, c, n):
    """(sin(n a), cos(n a)) from Syms s, c; n >= 0 integer."""
    if n == 0:
        return Sym(ZERO), Sym(ONE)
    rs, rc = s, c
    for _ in range(n - 1):
        rs, rc = rs * c + rc * s, rc * c - rs * s
    return rs, rc


def _sincos(x):
    """(sin x, cos x) for a Sym x."""
    key = (pkey(x.n), pkey(x.d))
    r = _TRIG_CACHE.get(key)
    if r is not None:
        for i in r[2]:
            touch(ATOMS[i])
        return r[0], r[1]
    used = set()
    res = _sincos_uncached(x, used)
    _TRIG_CACHE[key] = (res[0], res[1], tuple(used))
    return res


def _sincos_uncached(x, used):
    cv = x.const_value()
    if cv is not None:
        if cv == 0:
            return Sym(ZERO), Sym(ONE)
        f = float(cv)
        return Sym.const(math.sin(f)), Sym.const(math.cos(f))
    if x.d is not ONE:
        return _fresh_trig(x, used)
    # factor out sign atoms common to every term
    sig = None
    p = x.n
    content = p_monomial_content(p)
    sgs = [i for i in content if ATOMS[i].kind == 'sign']
    if sgs:
        p = p_div_mono(p, {i: 1 for i in sgs})
        sig = Sym(ONE)
        for i in sgs:
            sig = sig * Sym(pvar(i))
            used.add(i)
    # integer-linear form over angle atoms (and half-integer multiples of pi)?
    s_tot, c_tot = Sym(ZERO), Sym(ONE)
    ok = True
    for m, cf in sorted(p.items()):
        if len(m) != 1 or m[0][1] != 1:
            ok = False
            break
        at = ATOMS[m[0][0]]
        cf = Fraction(cf)
        if at.kind == 'pi':
            k2 = cf * 2
            if k2.denominator != 1:
                ok = False
                break
            k2 = int(k2) % 4
            s1, c1 = [(0, 1), (1, 0), (0, -1), (-1, 0)][k2]
            s1, c1 = Sym.const(s1), Sym.const(c1)
        elif at.kind == 'angle':
            if cf.denominator == 2:
                hs, hc = half_angle_atoms(at)
                used.add(hs.id); used.add(hc.id)
                s1, c1 = _multiple_angle(Sym(pvar(hs.id)), Sym(pvar(hc.id)), abs(int(cf * 2)))
                if cf < 0:
                    s1 = -s1
                s_tot, c_tot = s_tot * c1 + c_tot * s1, c_tot * c1 - s_tot * s1
                continue
            if cf.denominator != 1:
                ok = False
                break
            n = int(cf)
            used.add(at.id)
            touch(at)
            bs, bc = at.data.sin, at.data.cos
            for q in (bs, bc):
                for i in q.atoms():
                    used.add(i)
                    touch(ATOMS[i])
            s1, c1 = _multiple_angle(bs, bc, abs(n))
            if n < 0:
                s1 = -s1
        else:
            ok = False
            break
        s_tot, c_tot = s_tot * c1 + c_tot * s1, c_tot * c1 - s_tot * s1
    if ok:
        if sig is not None:
            s_tot = s_tot * sig
        return s_tot, c_tot
    s1, c1 = _fresh_trig(Sym(p), used)
    if sig is not None:
        s1 = s1 * sig
    return s1, c1


def _fresh_trig(x, used):
    """uninterpreted sin/cos atoms of an arbitrary argument, canonical up to sign."""
    lead = x.n[max(x.n)]
    neg = lead < 0
    y = -x if neg else x
    name = pstr(y.n) if y.d is ONE else '(%s)/(%s)' % (pstr(y.n), pstr(y.d))
    s = ATOM_BY_NAME.get('Sin{%s}' % name)
    if s is None:
        s = new_atom('Sin{%s}' % name, 'sin', y)
        c = new_atom('Cos{%s}' % name, 'cos', y)
        RULES[c.id] = {(): 1, ((s.id, 2),): -1}
        ax = [s.z * s.z + c.z * c.z == 1]
        yz = y.z()
        # sound sign / Taylor facts
        P = pi_atom().z
        ax += [z3.Implies(yz == 0, z3.And(s.z == 0, c.z == 1)),
               z3.Implies(z3.And(yz > 0, yz < P), s.z > 0),
               z3.Implies(z3.And(yz < 0, yz > -P), s.z < 0),
               z3.Implies(z3.And(yz > -2 * P, yz < 2 * P, yz != 0), c.z < 1),
               z3.Implies(yz >= 0, s.z <= yz), z3.Implies(yz <= 0, s.z >= yz)]
        # closed argument (pi, square roots of constants ...): pin the values to a float interval (+-1e-12, far above the
        # rounding error of the evaluation) so that models cannot drift away from the real value
        try:
            yv = sym_value(y, {})
        except (KeyError, ZeroDivisionError, ValueError):
            yv = None
        if yv is not None and abs(yv) < 1e6:
            for atom_, val in ((s, math.sin(yv)), (c, math.cos(yv))):
                lo_, hi_ = Fraction(val) - Fraction(1, 10 ** 12), Fraction(val) + Fraction(1, 10 ** 12)
                ax += [atom_.z >= z3.Q(lo_.numerator, lo_.denominator), atom_.z <= z3.Q(hi_.numerator, hi_.denominator)]
        s.axioms = ax
        c.axioms = ax
        s.deps = tuple(y.atoms() | {pi_atom().id})
        c.deps = tuple(y.atoms() | {s.id, pi_atom().id})
    else:
        c = ATOM_BY_NAME['Cos{%s}' % name]
    touch(s); touch(c)
    used.add(s.id); used.add(c.id)
    rs, rc = Sym(pvar(s.id)), Sym(pvar(c.id))
    return (-rs if neg else rs), rc


def sym_sin(x):
    if not isinstance(x, Sym):
        return math.sin(x)
    return _sincos(x)[0]


def sym_cos(x):
    if not isinstance(x, Sym):
        return math.cos(x)
    return _sincos(x)[1]


def sym_tan(x):
    """tan(x) = sin(2x) / (1 + cos(2x)): keeps half-angle arguments such as tan(theta/2) expressed
    in the atoms of theta; tan(pi/2) is the Infinite marker"""
    s2, c2 = _sincos(2 * x)
    if s2.is_zero():
        cv = c2.const_value()
        if cv == -1:
            return Infinite()
        if cv == 1:
            return Sym(ZERO)
    return s2 / (1 + c2)


def sym_arccos(x):
    """fresh angle a in [0, pi] with cos a = x, sin a = sqrt(1 - x^2)."""
    if not isinstance(x, Sym):
        return math.acos(x)
    cv = x.const_value()
    if cv is not None:
        if cv == 1:
            return Sym(ZERO)
        if cv == -1:
            return sym_pi()
        if cv == 0:
            return sym_pi() / 2
        return Sym.const(math.acos(float(cv)))
    name = 'acos{%s}' % (pstr(x.n) if x.d is ONE else '(%s)/(%s)' % (pstr(x.n), pstr(x.d)))
    a = ATOM_BY_NAME.get(name)
    if a is None:
        s = sym_sqrt(1 - x * x)
        a = new_atom(name, 'angle', AngleInfo())
        a.nonneg = True
        a.data.sin = s
        a.data.cos = x
        P = pi_atom().z
        xz, sz = x.z(), s.z()
        a.axioms = [a.z >= 0, a.z <= P,
                    z3.Implies(xz == 1, a.z == 0), z3.Implies(a.z == 0, xz == 1),
                    z3.Implies(xz == -1, a.z == P), z3.Implies(a.z == P, xz == -1),
                    z3.Implies(xz == 0, a.z * 2 == P),
                    z3.Implies(xz > 0, a.z * 2 < P), z3.Implies(xz < 0, a.z * 2 > P),
                    sz <= a.z,                       # sin a <= a for a >= 0
                    sz >= a.z - a.z * a.z * a.z / 6,
                    xz >= 1 - a.z * a.z / 2,         # cos a >= 1 - a^2/2
                    xz <= 1 - a.z * a.z / 2 + a.z * a.z * a.z * a.z / 24,
                    ]
        a.deps = tuple(x.atoms() | s.atoms() | {pi_atom().id})
        # injectivity of cosine on [0, pi]: if x is literally cos(alpha) of a registered angle
        if x.d is ONE and len(x.n) == 1:
            (m, cf), = x.n.items()
            if cf == 1 and len(m) == 1 and m[0][1] == 1 and ATOMS[m[0][0]].kind == 'cos' \
                    and isinstance(ATOMS[m[0][0]].data, Atom):
                al = ATOMS[m[0][0]].data
                a.axioms += [z3.Implies(z3.And(al.z >= 0, al.z <= P), a.z == al.z),
                             z3.Implies(z3.And(al.z <= 0, al.z >= -P), a.z == -al.z),
                             z3.Implies(z3.And(al.z >= P, al.z <= 2 * P), a.z == 2 * P - al.z)]
                a.deps = tuple(set(a.deps) | {al.id})
        add_sqrt_hint(Sym(pvar(a.id)))
    else:
        for i in a.data.sin.atoms():
            touch(ATOMS[i])
    touch(a)
    return Sym(pvar(a.id))


# ----------------------------------------------------------------------------------------------
# modulo / floor (bounded integer atoms) -- implemented through engine hooks
# ----------------------------------------------------------------------------------------------

_INT_HOOK = [None]


def sym_floordiv(x, m):
    """floor(x/m) as a fresh integer-valued atom k with k <= x/m < k+1."""
    x = Sym.lift(x); m = Sym.lift(m)
    cx, cm = x.const_value(), m.const_value()
    if cx is not None and cm is not None:
        return Sym.const(Fraction(cx) // Fraction(cm))
    q = x / m
    name = 'floor{%s}' % (pstr(q.n) if q.d is ONE else '(%s)/(%s)' % (pstr(q.n), pstr(q.d)))
    a = ATOM_BY_NAME.get(name)
    if a is None:
        a = new_atom(name, 'int', q)
        qz = q.z()
        a.axioms = [z3.IsInt(a.z), a.z <= qz, qz < a.z + 1]
        a.deps = tuple(q.atoms())
    touch(a)
    return Sym(pvar(a.id))


def sym_mod(x, m):
    """Python/NumPy modulo for positive or negative modulus: x - floor(x/m)*m."""
    x = Sym.lift(x); m = Sym.lift(m)
    cx, cm = x.const_value(), m.const_value()
    if cx is not None and cm is not None:
        return Sym.const(Fraction(cx) % Fraction(cm))
    return x - sym_floordiv(x, m) * m


# ----------------------------------------------------------------------------------------------
# formal differentiation
# ----------------------------------------------------------------------------------------------

def pdiff(p, var_id, datom):
    """d p / d atom(var_id); datom(i) -> Sym derivative of atom i w.r.t. var (or None = 0)."""
    out = Sym(ZERO)
    for m, c in p.items():
        for k, (i, e) in enumerate(m):
            di = datom(i)
            if di is None:
                continue
            rest = m[:k] + (((i, e - 1),) if e > 1 else ()) + m[k + 1:]
            out = out + Sym({rest: _nc(c * e)}) * di
    return out


def sym_diff(x, var_atom):
    """Formal derivative of Sym x with respect to the angle/variable atom var_atom.
    sin{v} -> cos{v}, cos{v} -> -sin{v}; atoms not depending on v -> 0.  Atoms that depend on v in
    other ways (sqrt, fresh trig of nonlinear arguments) are differentiated by the chain rule where
    their definition is polynomial; otherwise NotImplementedError."""
    cache = {}

    def datom(i):
        if i in cache:
            return cache[i]
        at = ATOMS[i]
        r = None
        if i == var_atom.id:
            r = Sym(ONE)
        elif at.kind in ('sin', 'cos') and isinstance(at.data, Atom):
            if at.data.id == var_atom.id:
                info = at.data.data
                r = info.cos if at.kind == 'sin' else -info.sin
        elif at.kind in ('sin', 'cos') and isinstance(at.data, Sym):
            inner = sym_diff(at.data, var_atom)
            if not inner.is_zero():
                s_, c_ = _sincos(at.data)
                r = (c_ if at.kind == 'sin' else -s_) * inner
        elif at.kind == 'sqrt':
            inner = sym_diff(at.data, var_atom)
            if not inner.is_zero():
                r = inner / (2 * Sym(pvar(i)))
        elif at.kind == 'sign':
            r = None
        elif at.kind in ('var', 'pi', 'angle', 'int', 'stub'):
            r = None
        cache[i] = r
        return r

    dn = pdiff(x.n, var_atom.id, datom)
    if x.d is ONE:
        return dn
    dd = pdiff(x.d, var_atom.id, datom)
    return (dn * Sym(x.d) - Sym(x.n) * dd) / (Sym(x.d) * Sym(x.d))


# ----------------------------------------------------------------------------------------------
# numeric evaluation of atoms from their definitions (encoder validation / debugging)
# ----------------------------------------------------------------------------------------------

def atom_value(i, inputs, cache):
    """true real value of atom i given values of the input atoms (dict name -> float)"""
    if i in cache:
        return cache[i]
    at = ATOMS[i]
    k = at.kind
    if at.name in inputs:
        v = float(inputs[at.name])
    elif k == 'pi':
        v = math.pi
    elif k in ('sin', 'cos'):
        if isinstance(at.data, Atom):
            ang = atom_value(at.data.id, inputs, cache)
        else:
            ang = sym_value(at.data, inputs, cache)
        v = math.sin(ang) if k == 'sin' else math.cos(ang)
    elif k == 'sqrt':
        x = sym_value(at.data, inputs, cache)
        v = math.sqrt(max(x, 0.0))
    elif k == 'sign':
        x = sym_value(at.data, inputs, cache)
        v = 1.0 if x >= 0 else -1.0
    elif k == 'angle':
        info = at.data
        if info.cos is not None and not (info.cos.d is ONE and len(info.cos.n) == 1 and
                                         ATOMS[next(iter(info.cos.n))[0][0]].kind == 'cos' and
                                         ATOMS[next(iter(info.cos.n))[0][0]].data is at):
            c = sym_value(info.cos, inputs, cache)
            v = math.acos(max(-1.0, min(1.0, c)))
        else:
            raise KeyError('no value for angle %s' % at.name)
    elif k == 'int':
        v = float(math.floor(sym_value(at.data, inputs, cache)))
    else:
        raise KeyError('no value for atom %s' % at.name)
    cache[i] = v
    return v


CLOSED_STATS = {'decided': 0}


def closed_sign(x):
    """sign (+1 / -1) of an expression built ONLY from constant atoms (pi, sqrt / trig / sign of such), decided by
    float evaluation with a cancellation-aware margin; None when the expression has free atoms or is too close to 0
    (then the solver decides).  Part of the claim: listed as an assumption in the evidence."""
    ids = x.atoms()
    if not ids:
        return None
    cache = {}
    env = {}
    try:
        for i in ids:
            env[i] = atom_value(i, {}, cache)
    except KeyError:
        return None
    sign = 1
    for poly in ((x.n,) if x.d is ONE else (x.n, x.d)):
        tot = 0.0
        mag = 0.0
        for m, c in poly.items():
            v = float(c)
            for i, e in m:
                v *= env[i] ** e
            tot += v
            mag += abs(v)
        if not (abs(tot) > 1e-9 * mag + 1e-300) or tot != tot:
            return None
        if tot < 0:
            sign = -sign
    CLOSED_STATS['decided'] += 1
    return sign


def sym_value(x, inputs, cache=None):
    if cache is None:
        cache = {}
    if not isinstance(x, Sym):
        return float(x)
    env = {}
    for i in x.atoms():
        env[i] = atom_value(i, inputs, cache)
    n = p_eval(x.n, env)
    if x.d is ONE:
        return n
    return n / p_eval(x.d, env)


def random_point(atom_ids, rng, tries=20):
    """random point on the variety of the defining relations, for randomized polynomial identity tests:
    returns dict atom id -> float for the given atoms and everything they depend on, or None"""
    need = set()
    stack = list(atom_ids)
    while stack:
        i = stack.pop()
        if i in need:
            continue
        need.add(i)
        at = ATOMS[i]
        for j in at.deps:
            stack.append(j)
        if i in RULES:
            for j in patoms(RULES[i]):
                stack.append(j)
        if isinstance(at.data, Sym):
            for j in at.data.atoms():
                stack.append(j)
        elif isinstance(at.data, Atom):
            stack.append(at.data.id)
        elif isinstance(at.data, AngleInfo):
            for q in (at.data.sin, at.data.cos):
                if q is not None:
                    for j in q.atoms():
                        stack.append(j)
    for _ in range(tries):
        inputs = {}
        cache = {}
        ok = True
        for i in sorted(need):
            at = ATOMS[i]
            try:
                if at.kind in ('var', 'int', 'stub') or (at.kind == 'angle' and at.data.cos is not None and
                                                          ('cos{%s}' % at.name) in ATOM_BY_NAME):
                    if i in RULES and at.kind == 'var':
                        env = {j: atom_value(j, inputs, cache) for j in patoms(RULES[i])}
                        v2 = p_eval(RULES[i], env)
                        if v2 < 0:
                            ok = False
                            break
                        v = math.sqrt(v2) * (1 if rng.random() < 0.5 else -1)
                    elif at.kind == 'int':
                        v = float(rng.randint(-3, 3))
                    elif at.kind == 'angle':
                        v = rng.uniform(0.2, 1.4)
                    else:
                        v = rng.uniform(-0.55, 0.55)
                    inputs[at.name] = v
                    cache[i] = v
                else:
                    atom_value(i, inputs, cache)
            except (KeyError, ValueError, ZeroDivisionError):
                ok = False
                break
        if ok:
            return cache
    return None
