"""Symbolic formatting for C20: format()/round()/str() of symbolic numbers produce tokens that record
WHICH value was rendered and HOW (width.precision), instead of digits.  CPython's float formatting
(turning (x, width, precision) into correctly rounded digits) is trusted."""
import re
from . import sym as S
from .sym import Sym

TOKEN = re.compile(r'⟦([^|⟧]*)\|([^⟧]*)⟧')


def sym_key(x):
    return S.pstr(x.n) if not x.f else '(%s)/(%s)' % (S.pstr(x.n), S.pstr(x.d))


def fmt_hook(x, spec):
    c = x.const_value()
    if c is not None:
        return format(float(c), spec)
    return '⟦%s|%s⟧' % (sym_key(x), spec)


class Rounded:
    """round(x, nd) of a symbolic x"""

    def __init__(self, x, nd):
        self.x = x
        self.nd = nd

    def __str__(self):
        return '⟦%s|round%s⟧' % (sym_key(self.x), self.nd)

    __repr__ = __str__

    def __format__(self, spec):
        return '⟦%s|round%s:%s⟧' % (sym_key(self.x), self.nd, spec)

    def __abs__(self):
        return Rounded(S.sym_abs(self.x), self.nd)


class SymInt:
    """round(x) of a symbolic x: an integer n with |x - n| <= 1/2.  str() forks on the number of digits."""
    MAX_DIGITS = 16

    def __init__(self, x, n=None):
        self.x = x
        if n is None:
            n = S.sym_floordiv(x + S.Sym.const(S.Fraction(1, 2)), 1)    # floor(x + 1/2): same digit count as round half even
        self.n = n

    def __abs__(self):
        return SymInt(S.sym_abs(self.x), S.sym_abs(self.n))

    def __str__(self):
        n = self.n
        neg = False
        if n < 0:
            neg = True
            n = -n
        k = 1
        bound = 10
        while not (n < bound):
            k += 1
            bound *= 10
            if k > self.MAX_DIGITS:
                raise S.SymbolicLeak('integer with more than %d digits' % self.MAX_DIGITS)
        return ('-' if neg else '') + '9' * k

    __repr__ = __str__

    def __format__(self, spec):
        return '⟦%s|int:%s⟧' % (sym_key(self.x), spec)


def round_hook(x, nd):
    if nd is None:
        return SymInt(x)
    return Rounded(x, nd)


def install():
    S.FORMAT_HOOK[0] = fmt_hook
    S.ROUND_HOOK[0] = round_hook


def uninstall():
    S.FORMAT_HOOK[0] = None
    S.ROUND_HOOK[0] = None
