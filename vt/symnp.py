"""numpy proxy: real numpy object arrays carrying Sym scalars.  Anything not overridden here falls
through to the installed numpy (so API drift such as np.Inf shows up exactly as in production)."""
import types
import math
from fractions import Fraction
import numpy as _np

from . import sym as S
from .sym import Sym, SymBool


class SArr(_np.ndarray):
    """object ndarray that remembers the dtype the code asked for and keeps concrete numbers exact."""
    _vt_dtype = 'f'

    def __array_finalize__(self, obj):
        if obj is not None:
            self._vt_dtype = getattr(obj, '_vt_dtype', 'f')

    def __setitem__(self, key, val):
        _np.ndarray.__setitem__(self, key, _exactify(val))

    def astype(self, dtype, *a, **k):
        kind = _dtype_kind(dtype)
        if kind == 'O' or kind == 'f':
            r = self.copy()
            r._vt_dtype = kind
            return r
        if kind == 'i':
            r = self.copy()
            flat = r.reshape(-1)
            for i in range(flat.size):
                flat[i] = int(flat[i])
            r._vt_dtype = 'i'
            return r
        return _np.asarray(self).astype(dtype, *a, **k)

    def round(self, decimals=0, out=None):
        return around(self, decimals)

    def conj(self):
        return self

    conjugate = conj

    def tolist(self):
        return _np.ndarray.tolist(self)

    def __float__(self):
        if self.size != 1:
            raise TypeError('only length-1 arrays can be converted to Python scalars')
        return float(self.reshape(-1)[0])

    def __bool__(self):
        if self.size != 1:
            raise ValueError('The truth value of an array with more than one element is ambiguous.')
        return bool(self.reshape(-1)[0])

    # elementwise comparisons keep symbolic booleans as objects (numpy would force each to bool = one decision per element);
    # all-concrete results are returned as ordinary boolean arrays so that masks keep working
    def _cmp(self, other, uf):
        r = uf(_np.asarray(self), _np.asarray(other) if isinstance(other, _np.ndarray) else other, dtype=object)
        if isinstance(r, _np.ndarray):
            if not any(isinstance(v, SymBool) for v in r.reshape(-1)):
                return r.astype(bool)
            return r
        return r

    def __lt__(self, o): return self._cmp(o, _np.less)
    def __le__(self, o): return self._cmp(o, _np.less_equal)
    def __gt__(self, o): return self._cmp(o, _np.greater)
    def __ge__(self, o): return self._cmp(o, _np.greater_equal)

    @property
    def dtype(self):
        return _FakeDtype(self._vt_dtype)

    def __reduce__(self):
        return (_rebuild, (self._vt_dtype, self.shape, list(self.reshape(-1))))

    # comparisons on object arrays work elementwise through Sym.__lt__ etc. and yield SArr of
    # bool / SymBool, which np.any / np.all below understand.


def _rebuild(kind, shape, flat):
    a = _np.empty(len(flat), dtype=object)
    for i, v in enumerate(flat):
        a[i] = v
    r = a.reshape(shape).view(SArr)
    r._vt_dtype = kind
    return r


class _FakeDtype:
    def __init__(self, kind):
        self.kind = kind

    def __eq__(self, o):
        return _dtype_kind(o) == self.kind

    def __ne__(self, o):
        return not self.__eq__(o)

    def __hash__(self):
        return hash(self.kind)

    @property
    def name(self):
        return {'f': 'float64', 'i': 'int64', 'b': 'bool', 'O': 'object'}.get(self.kind, 'object')

    def __repr__(self):
        return "dtype('%s')" % self.name

    __str__ = lambda self: self.name

    @property
    def type(self):
        return {'f': _np.float64, 'i': _np.int64, 'b': _np.bool_}.get(self.kind, object)


def _dtype_kind(dtype):
    if dtype is None:
        return 'f'
    if isinstance(dtype, _FakeDtype):
        return dtype.kind
    if dtype is float or dtype is _np.float64 or dtype is _np.float32:
        return 'f'
    if dtype is int or dtype is _np.int64 or dtype is _np.int32:
        return 'i'
    if dtype is bool or dtype is _np.bool_:
        return 'b'
    if dtype is object:
        return 'O'
    try:
        k = _np.dtype(dtype).kind
        return {'f': 'f', 'i': 'i', 'u': 'i', 'b': 'b', 'O': 'O'}.get(k, 'O')
    except Exception:
        return 'O'


STRING_TO_NUMBER = [None]   # hook (C13): str -> Sym / number


def _exact_scalar(v):
    if isinstance(v, (Sym, SymBool, Fraction, bool, int)) or v is None:
        return v
    if isinstance(v, float):
        if v != v or v in (math.inf, -math.inf):
            return v
        return S.to_frac(v)
    if isinstance(v, (_np.floating,)):
        return _exact_scalar(float(v))
    if isinstance(v, _np.integer):
        return int(v)
    if isinstance(v, _np.bool_):
        return bool(v)
    if isinstance(v, str):
        h = STRING_TO_NUMBER[0]
        if h is not None:
            return h(v)
        return S.to_frac(float(v))
    return v


def _exactify(val):
    if isinstance(val, SArr):
        return val
    if isinstance(val, _np.ndarray):
        if val.dtype == object:
            return val
        return array(val)
    if isinstance(val, (list, tuple)):
        return array(val)
    return _exact_scalar(val)


def _wrap(a, kind='f'):
    """any ndarray -> SArr (object) with exact elements"""
    if isinstance(a, SArr):
        return a
    a = _np.asarray(a)
    if a.dtype != object:
        if a.dtype.kind in 'US':
            kind_ = kind
            out = _np.empty(a.shape, dtype=object)
            fo, fi = out.reshape(-1), a.reshape(-1)
            for i in range(fi.size):
                fo[i] = _exact_scalar(str(fi[i]))
            r = out.view(SArr)
            r._vt_dtype = kind_
            return r
        k = {'f': 'f', 'i': 'i', 'u': 'i', 'b': 'b'}.get(a.dtype.kind, 'O')
        out = _np.empty(a.shape, dtype=object)
        fo, fi = out.reshape(-1), a.reshape(-1)
        for i in range(fi.size):
            fo[i] = _exact_scalar(fi[i].item())
        r = out.view(SArr)
        r._vt_dtype = k if kind == 'f' and k != 'f' and False else (kind if kind != 'f' else k)
        return r
    out = a.copy() if not a.flags.owndata else a
    flat = out.reshape(-1)
    for i in range(flat.size):
        flat[i] = _exact_scalar(flat[i])
    r = out.view(SArr)
    r._vt_dtype = kind
    return r


def _contains_tm(x):
    return hasattr(x, 'TM') and hasattr(x, 'TAA')


def _nested_shape(x):
    """shape of a nested list/tuple/array structure, or None if ragged / scalar."""
    if isinstance(x, _np.ndarray):
        return x.shape
    if isinstance(x, (list, tuple)):
        if len(x) == 0:
            return (0,)
        shapes = [_nested_shape(e) for e in x]
        if any(s is None for s in shapes):
            return None
        if all(s == shapes[0] for s in shapes):
            return (len(x),) + shapes[0]
        return None
    return ()


def _fill(out, x, idx):
    if isinstance(x, _np.ndarray):
        if x.ndim == 0:
            out[idx] = _exact_scalar(x.item())
            return
        for i in range(x.shape[0]):
            _fill(out, x[i], idx + (i,))
    elif isinstance(x, (list, tuple)):
        for i, e in enumerate(x):
            _fill(out, e, idx + (i,))
    else:
        out[idx] = _exact_scalar(x)


def array(obj, dtype=None, copy=True, order=None, ndmin=0, **kw):
    kind = _dtype_kind(dtype) if dtype is not None else None
    if isinstance(obj, SArr):
        r = obj.copy() if copy else obj
        if kind is not None:
            r = r.astype(dtype)
        if ndmin and r.ndim < ndmin:
            r = r.reshape((1,) * (ndmin - r.ndim) + r.shape)
        return r
    if isinstance(obj, _np.ndarray) and obj.dtype != object:
        r = _wrap(obj.copy(), kind or 'f')
    elif isinstance(obj, (Sym, SymBool, Fraction, int, float, bool)) or obj is None or _contains_tm(obj) \
            or isinstance(obj, (str, _np.generic)):
        out = _np.empty((), dtype=object)
        out[()] = _exact_scalar(obj)
        r = out.view(SArr)
        r._vt_dtype = kind or ('O' if _contains_tm(obj) else 'f')
    else:
        if not isinstance(obj, (list, tuple, _np.ndarray)):
            try:
                obj = list(obj)
            except TypeError:
                out = _np.empty((), dtype=object)
                out[()] = obj
                return out
        shp = _nested_shape(obj)
        if shp is None:
            # ragged: numpy raises for non-object dtype
            if kind in (None, 'f', 'i', 'b'):
                raise ValueError('setting an array element with a sequence. The requested array has an '
                                 'inhomogeneous shape')
            out = _np.empty(len(obj), dtype=object)
            for i, e in enumerate(obj):
                out[i] = e
            r = out.view(SArr)
            r._vt_dtype = 'O'
            return r
        out = _np.empty(shp, dtype=object)
        if 0 not in shp:
            _fill(out, obj, ())
        r = out.view(SArr)
        guess = 'f'
        flat = out.reshape(-1)
        if flat.size and all(isinstance(v, bool) for v in flat):
            guess = 'b'
        elif flat.size and all(isinstance(v, int) and not isinstance(v, bool) for v in flat):
            guess = 'i'
        elif flat.size and any(_contains_tm(v) for v in flat):
            guess = 'O'
        r._vt_dtype = kind or guess
        if kind == 'f':
            for i in range(flat.size):
                if isinstance(flat[i], str):
                    flat[i] = _exact_scalar(flat[i])
    if ndmin and r.ndim < ndmin:
        r = r.reshape((1,) * (ndmin - r.ndim) + r.shape)
    return r


def asarray(obj, dtype=None, **kw):
    if isinstance(obj, SArr) and dtype is None:
        return obj
    return array(obj, dtype=dtype, copy=False)


def _full(shape, val, dtype=None):
    if isinstance(shape, (int, _np.integer)):
        shape = (int(shape),)
    shape = tuple(int(s) for s in (shape if isinstance(shape, (tuple, list)) else tuple(shape)))
    out = _np.empty(shape, dtype=object)
    out.fill(val) if out.size else None
    r = out.view(SArr)
    r._vt_dtype = _dtype_kind(dtype)
    return r


def zeros(shape, dtype=None, **kw): return _full(shape, 0, dtype)
def ones(shape, dtype=None, **kw): return _full(shape, 1, dtype)
def empty(shape, dtype=None, **kw): return _full(shape, 0, dtype)
def full(shape, v, dtype=None, **kw): return _full(shape, _exact_scalar(v), dtype)
def zeros_like(a, dtype=None, **kw): return _full(_np.shape(a), 0, dtype)
def ones_like(a, dtype=None, **kw): return _full(_np.shape(a), 1, dtype)


def eye(n, m=None, k=0, dtype=None, **kw):
    if isinstance(n, tuple):
        n = n[0]
    n = int(n)
    m = n if m is None else int(m)
    r = _full((n, m), 0, dtype)
    for i in range(n):
        if 0 <= i + k < m:
            _np.ndarray.__setitem__(r, (i, i + k), 1)
    return r


def identity(n, dtype=None): return eye(n, dtype=dtype)


def diag(v, k=0):
    v = asarray(v)
    if v.ndim == 1:
        n = v.shape[0]
        r = _full((n + abs(k), n + abs(k)), 0)
        for i in range(n):
            r[i + max(0, -k), i + max(0, k)] = v[i]
        return r
    return _np.diag(v, k).view(SArr)


def copy(a, **kw):
    if isinstance(a, _np.ndarray):
        return asarray(a).copy()
    return array(a)


def _map(f, x):
    if isinstance(x, _np.ndarray) or isinstance(x, (list, tuple)):
        a = asarray(x)
        out = _np.empty(a.shape, dtype=object)
        fo, fi = out.reshape(-1), a.reshape(-1)
        for i in range(fi.size):
            fo[i] = f(fi[i])
        r = out.view(SArr)
        return r
    return f(x)


def _num(f_sym, f_math):
    def g(v):
        if isinstance(v, Sym):
            return f_sym(v)
        if isinstance(v, Fraction) or isinstance(v, int):
            r = f_sym(Sym.const(v))
            c = r.const_value()
            return c if c is not None else r
        return _exact_scalar(f_math(v))
    return g


_sqrt1 = _num(S.sym_sqrt, math.sqrt)
_sin1 = _num(S.sym_sin, math.sin)
_cos1 = _num(S.sym_cos, math.cos)
_acos1 = _num(S.sym_arccos, math.acos)


def _tan1(v):
    if isinstance(v, Sym):
        return S.sym_tan(v)
    return _exact_scalar(math.tan(v))


def sqrt(x, **kw): return _map(_sqrt1, x)
def sin(x, **kw): return _map(_sin1, x)
def cos(x, **kw): return _map(_cos1, x)
def tan(x, **kw): return _map(_tan1, x)
def arccos(x, **kw): return _map(_acos1, x)


def arcsin(x, **kw):
    return _map(lambda v: S.sym_pi() / 2 - _acos1(v) if isinstance(v, Sym) else _exact_scalar(math.asin(v)), x)


def arctan2(y, x, **kw):
    if isinstance(y, Sym) or isinstance(x, Sym):
        raise S.SymbolicLeak('arctan2 of symbolic values is not modelled')
    return _exact_scalar(math.atan2(y, x))


def absolute(x, **kw): return _map(S.sym_abs, x)
abs_ = absolute


def square(x, **kw): return _map(lambda v: v * v, x)


def isnan(x, **kw):
    return _map(lambda v: (v != v) if isinstance(v, float) else False, x)


def isfinite(x, **kw):
    return _map(lambda v: (v == v and v not in (math.inf, -math.inf)) if isinstance(v, float) else True, x)


def isinf(x, **kw):
    return _map(lambda v: (v in (math.inf, -math.inf)) if isinstance(v, float) else False, x)


def any_(x, axis=None, **kw):
    if isinstance(x, (SymBool, bool)):
        return x
    a = asarray(x).reshape(-1)
    return S.sb_or([(v if isinstance(v, (SymBool, bool)) else (v != 0)) for v in a])


def all_(x, axis=None, **kw):
    if isinstance(x, (SymBool, bool)):
        return x
    a = asarray(x).reshape(-1)
    return S.sb_and([(v if isinstance(v, (SymBool, bool)) else (v != 0)) for v in a])


def array_equal(a, b, **kw):
    a, b = asarray(a), asarray(b)
    if a.shape != b.shape:
        return False
    return S.sb_and([x == y for x, y in zip(a.reshape(-1), b.reshape(-1))])


def allclose(a, b, rtol=1e-05, atol=1e-08, **kw):
    a, b = asarray(a), asarray(b)
    a, b = _np.broadcast_arrays(a, b)
    rt, at = S.to_frac(rtol), S.to_frac(atol)
    conds = []
    for x, y in zip(a.reshape(-1), b.reshape(-1)):
        d = S.sym_abs(Sym.lift(x) - Sym.lift(y))
        conds.append(d <= at + rt * S.sym_abs(Sym.lift(y)))
    return S.sb_and(conds)


def isclose(a, b, rtol=1e-05, atol=1e-08, **kw):
    rt, at = S.to_frac(rtol), S.to_frac(atol)
    d = S.sym_abs(Sym.lift(a) - Sym.lift(b))
    return d <= at + rt * S.sym_abs(Sym.lift(b))


def _ite(c, x, y):
    """If-then-else on a symbolic condition: forks (decision) — simple and sound."""
    return x if c else y


def where(cond, x=None, y=None):
    if x is None:
        c = asarray(cond)
        flat = [bool(v) for v in c.reshape(-1)]
        return _np.where(_np.array(flat).reshape(c.shape))
    c = asarray(cond)
    xa, ya = asarray(x), asarray(y)
    c, xa, ya = _np.broadcast_arrays(c, xa, ya)
    out = _np.empty(c.shape, dtype=object)
    fo = out.reshape(-1)
    for i, (cc, xx, yy) in enumerate(zip(c.reshape(-1), xa.reshape(-1), ya.reshape(-1))):
        fo[i] = xx if cc else yy
    return out.view(SArr)


def _min2(a, b):
    return a if a <= b else b


def _max2(a, b):
    return a if a >= b else b


def clip(x, lo, hi, **kw):
    def f(v, l, h):
        if l is not None:
            v = _max2(v, l)
        if h is not None:
            v = _min2(v, h)
        return v
    if isinstance(x, (_np.ndarray, list, tuple)):
        a = asarray(x)
        la = _np.broadcast_to(asarray(lo), a.shape) if lo is not None else None
        ha = _np.broadcast_to(asarray(hi), a.shape) if hi is not None else None
        out = _np.empty(a.shape, dtype=object)
        fo = out.reshape(-1)
        fa = a.reshape(-1)
        for i in range(fa.size):
            fo[i] = f(fa[i], la.reshape(-1)[i] if la is not None else None,
                      ha.reshape(-1)[i] if ha is not None else None)
        return out.view(SArr)
    return f(x, lo, hi)


def around(x, decimals=0, **kw):
    def f(v):
        if isinstance(v, Sym):
            c = v.const_value()
            if c is None:
                raise S.SymbolicLeak('round of symbolic value')
            v = c
        return S.to_frac(round(Fraction(v), decimals)) if not isinstance(v, float) else v
    return _map(f, x)


round_ = around


def amax(x, axis=None, **kw):
    a = asarray(x).reshape(-1)
    r = a[0]
    for v in a[1:]:
        r = _max2(r, v)
    return r


def amin(x, axis=None, **kw):
    a = asarray(x).reshape(-1)
    r = a[0]
    for v in a[1:]:
        r = _min2(r, v)
    return r


def linspace(a, b, num=50, endpoint=True, **kw):
    num = int(num)
    a, b = _exact_scalar(a), _exact_scalar(b)
    div = (num - 1) if endpoint else num
    out = [a + (b - a) * Fraction(i, div) if div else a for i in range(num)]
    return array(out)


def arange(*args, **kw):
    r = _np.arange(*[float(a) if isinstance(a, Fraction) else a for a in args])
    return _wrap(r)


def sum_(x, axis=None, **kw):
    a = asarray(x)
    if a.size == 0:
        return 0
    r = _np.sum(_np.asarray(a), axis=axis)
    return r.view(SArr) if isinstance(r, _np.ndarray) else r


class HavocMatrix(SArr):
    """result of a havoc'd pseudo-inverse: its product with anything is an arbitrary vector (DOT_HOOK supplies it)"""


DOT_HOOK = [None]


def dot(a, b, out=None):
    if isinstance(a, HavocMatrix) and DOT_HOOK[0] is not None:
        return DOT_HOOK[0](a, asarray(b))
    a, b = asarray(a), asarray(b)
    r = _np.dot(a, b)
    return r.view(SArr) if isinstance(r, _np.ndarray) else r


def matmul(a, b):
    a, b = asarray(a), asarray(b)
    r = _np.matmul(a, b)
    return r.view(SArr) if isinstance(r, _np.ndarray) else r


def cross(a, b, **kw):
    a, b = asarray(a), asarray(b)
    if a.shape == (3,) and b.shape == (3,):
        return array([a[1] * b[2] - a[2] * b[1], a[2] * b[0] - a[0] * b[2], a[0] * b[1] - a[1] * b[0]])
    r = _np.cross(a, b, **kw)
    return _wrap(r)


def trace(a, **kw):
    a = asarray(a)
    r = 0
    for i in range(min(a.shape[0], a.shape[1])):
        r = r + a[i, i]
    return r


def transpose(a, axes=None):
    return asarray(a).transpose() if axes is None else asarray(a).transpose(axes)


def _seq(xs):
    return [asarray(x) for x in xs]


def hstack(xs, **kw): return _np.hstack(_seq(xs)).view(SArr)
def vstack(xs, **kw): return _np.vstack(_seq(xs)).view(SArr)
def concatenate(xs, axis=0, **kw): return _np.concatenate(_seq(xs), axis=axis).view(SArr)
def stack(xs, axis=0, **kw): return _np.stack(_seq(xs), axis=axis).view(SArr)
def column_stack(xs): return _np.column_stack(_seq(xs)).view(SArr)


def squeeze(a, axis=None): return asarray(a).squeeze() if axis is None else asarray(a).squeeze(axis)
def reshape(a, shape, **kw): return asarray(a).reshape(shape)
def ravel(a, **kw): return asarray(a).ravel()
def flip(a, axis=None): return _np.flip(asarray(a), axis).view(SArr)


def add(a, b): return asarray(a) + asarray(b) if isinstance(a, (list, tuple, _np.ndarray)) or isinstance(b, (list, tuple, _np.ndarray)) else a + b
def subtract(a, b): return asarray(a) - asarray(b) if isinstance(a, (list, tuple, _np.ndarray)) or isinstance(b, (list, tuple, _np.ndarray)) else a - b
def multiply(a, b): return asarray(a) * asarray(b) if isinstance(a, (list, tuple, _np.ndarray)) or isinstance(b, (list, tuple, _np.ndarray)) else a * b
def divide(a, b): return asarray(a) / asarray(b) if isinstance(a, (list, tuple, _np.ndarray)) or isinstance(b, (list, tuple, _np.ndarray)) else a / b
def negative(a): return -asarray(a) if isinstance(a, (list, tuple, _np.ndarray)) else -a


def mean(x, axis=None, **kw):
    a = asarray(x)
    if axis is None:
        return sum_(a) / a.size
    return (sum_(a, axis=axis) / a.shape[axis])


def size(a, axis=None):
    if isinstance(a, (Sym, Fraction)):
        return 1
    return _np.size(a, axis) if not isinstance(a, (list, tuple)) or True else 0


def shape(a):
    if isinstance(a, (Sym, Fraction)):
        return ()
    return _np.shape(a)


def isscalar(x):
    return isinstance(x, (Sym, Fraction)) or _np.isscalar(x)


def float64(x=0.0):
    if isinstance(x, (Sym, Fraction)):
        return x
    if isinstance(x, _np.ndarray):
        return asarray(x)
    return _exact_scalar(float(x)) if not isinstance(x, str) else _exact_scalar(x)


class _RClass:
    """np.r_ / np.c_ for the forms used by the code base: plain concatenation of arrays / lists / scalars
    (r_: along the first axis; c_: 1-D operands become columns, concatenation along the last axis)"""

    def __init__(self, real, mode):
        self.real = real
        self.mode = mode

    def __getitem__(self, key):
        if not isinstance(key, tuple):
            key = (key,)
        if any(isinstance(k, (slice, str)) for k in key):
            raise S.SymbolicLeak('np.%s_ with slice/string directives is not modelled' % self.mode)
        items = []
        for k in key:
            a = asarray(k) if isinstance(k, (list, tuple, _np.ndarray)) else asarray([k])
            items.append(_np.asarray(a).view(_np.ndarray))
        if self.mode == 'r':
            nd = max(i.ndim for i in items)
            items = [i if i.ndim == nd else i.reshape((1,) * (nd - i.ndim) + i.shape) for i in items]
            r = _np.concatenate(items, axis=0)
        else:
            items = [i.reshape((-1, 1)) if i.ndim == 1 else i for i in items]
            r = _np.concatenate(items, axis=-1)
        return r.view(SArr)


# ---------------------------------------------------------------------------------------------
# linalg
# ---------------------------------------------------------------------------------------------

class StubLog:
    """records which stubs were used (part of the claim)"""
    used = {}

    @classmethod
    def note(cls, name):
        cls.used[name] = cls.used.get(name, 0) + 1


def _det(a):
    a = asarray(a)
    n = a.shape[0]
    if n == 1:
        return a[0, 0]
    if n == 2:
        return a[0, 0] * a[1, 1] - a[0, 1] * a[1, 0]
    if n == 3:
        return (a[0, 0] * (a[1, 1] * a[2, 2] - a[1, 2] * a[2, 1])
                - a[0, 1] * (a[1, 0] * a[2, 2] - a[1, 2] * a[2, 0])
                + a[0, 2] * (a[1, 0] * a[2, 1] - a[1, 1] * a[2, 0]))
    tot = 0
    for j in range(n):
        if isinstance(a[0, j], (int, Fraction)) and a[0, j] == 0:
            continue
        if isinstance(a[0, j], Sym) and a[0, j].is_zero():
            continue
        minor = _np.delete(_np.delete(_np.asarray(a), 0, axis=0), j, axis=1)
        tot = tot + ((-1) ** j) * a[0, j] * _det(minor.view(SArr))
    return tot


def _all_concrete(a):
    for v in asarray(a).reshape(-1):
        if isinstance(v, Sym) and v.const_value() is None:
            return False
    return True


def _inv(a):
    a = asarray(a)
    n = a.shape[0]
    if a.ndim != 2 or a.shape[1] != n:
        raise _np.linalg.LinAlgError('Last 2 dimensions of the array must be square')
    StubLog.note('linalg.inv[n=%d]' % n)
    if _all_concrete(a):
        return _inv_gauss(a)
    if n > 4:
        h = INV_HOOK[0]
        if h is not None:
            return h(a)
        raise S.SymbolicLeak('symbolic inverse of a %dx%d matrix is not modelled' % (n, n))
    d = _det(a)
    if isinstance(d, (int, Fraction)) and d == 0:
        raise _np.linalg.LinAlgError('Singular matrix')
    if isinstance(d, Sym) and d.is_zero():
        raise _np.linalg.LinAlgError('Singular matrix')
    NONSINGULAR_HOOK[0](d) if NONSINGULAR_HOOK[0] else None
    out = _full((n, n), 0)
    if n == 1:
        out[0, 0] = 1 / Sym.lift(d) if isinstance(d, Sym) else Fraction(1) / d
        return out
    for i in range(n):
        for j in range(n):
            minor = _np.delete(_np.delete(_np.asarray(a), j, axis=0), i, axis=1)
            c = _det(minor.view(SArr)) * ((-1) ** (i + j))
            out[i, j] = c / d if isinstance(c, Sym) or isinstance(d, Sym) else Fraction(c) / Fraction(d)
    return out


def _inv_gauss(a):
    n = a.shape[0]
    M = [[(x.const_value() if isinstance(x, Sym) else x) for x in row] for row in _np.asarray(a)]
    M = [[Fraction(x) if not isinstance(x, Sym) else x for x in row] + [Fraction(int(i == j)) for j in range(n)]
         for i, row in enumerate(M)]
    for c in range(n):
        p = None
        for r in range(c, n):
            if M[r][c] != 0:
                p = r
                break
        if p is None:
            raise _np.linalg.LinAlgError('Singular matrix')
        M[c], M[p] = M[p], M[c]
        pv = M[c][c]
        M[c] = [x / pv for x in M[c]]
        for r in range(n):
            if r != c and M[r][c] != 0:
                f = M[r][c]
                M[r] = [x - f * y for x, y in zip(M[r], M[c])]
    return array([[S._nc(x) for x in row[n:]] for row in M])


INV_HOOK = [None]
PINV_HOOK = [None]
NONSINGULAR_HOOK = [None]
SVD_HOOK = [None]


def _pinv(a, rcond=None, **kw):
    rc = rcond if rcond is not None else kw.get('rtol')
    if rc is not None and not (isinstance(rc, (int, float, Fraction)) and rc <= 1e-9):
        # a truncating pseudo-inverse is not the inverse: the exact-inverse model would be wrong
        raise S.SymbolicLeak('pinv with a truncation threshold (rcond=%r) is not modelled' % (rc,))
    if hasattr(a, 'factors') and PINV_HOOK[0] is not None:      # lazylin.LazyMat
        return PINV_HOOK[0](a)
    a = asarray(a)
    StubLog.note('linalg.pinv[%s]' % (a.shape,))
    h = PINV_HOOK[0]
    if h is not None:
        return h(a)
    if a.ndim == 2 and a.shape[0] == a.shape[1] and a.shape[0] <= 3:
        return _inv(a)
    raise S.SymbolicLeak('pinv of %s is not modelled' % (a.shape,))


def _solve(a, b):
    StubLog.note('linalg.solve')
    return dot(_inv(a), asarray(b))


def _norm(x, ord=None, axis=None, **kw):
    a = asarray(x)
    if ord not in (None, 2, 'fro'):
        raise S.SymbolicLeak('norm ord=%r not modelled' % (ord,))
    if axis is not None:
        raise S.SymbolicLeak('norm axis not modelled')
    tot = 0
    for v in a.reshape(-1):
        tot = tot + v * v
    return _sqrt1(tot)


def _lstsq(a, b, rcond=None):
    a, b = asarray(a), asarray(b)
    StubLog.note('linalg.lstsq')
    if a.ndim == 2 and a.shape[0] == a.shape[1]:
        return (dot(_inv(a), b), array([]), a.shape[0], array([]))
    raise S.SymbolicLeak('lstsq non-square not modelled')


def _svd(a, **kw):
    h = SVD_HOOK[0]
    StubLog.note('linalg.svd')
    if h is not None:
        return h(asarray(a))
    raise S.SymbolicLeak('svd not modelled')


def _eig(a, **kw):
    StubLog.note('linalg.eig')
    raise S.SymbolicLeak('eig not modelled')


class _Random(types.ModuleType):
    hook = [None]

    def uniform(self, lo=0.0, hi=1.0, size=None):
        h = self.hook[0]
        if h is None:
            raise S.SymbolicLeak('np.random.uniform without a nondeterminism hook')
        return h(lo, hi, size)

    def rand(self, *shape):
        return self.uniform(0, 1, shape if shape else None)

    def seed(self, *a):
        pass


def build():
    m = types.ModuleType('numpy')

    class Proxy(types.ModuleType):
        def __getattr__(self, name):
            return getattr(_np, name)

    m = Proxy('numpy')
    g = globals()
    for name in ['array', 'asarray', 'zeros', 'ones', 'empty', 'full', 'zeros_like', 'ones_like', 'eye',
                 'identity', 'diag', 'copy', 'sqrt', 'sin', 'cos', 'tan', 'arccos', 'arcsin', 'arctan2',
                 'absolute', 'square', 'isnan', 'isfinite', 'isinf', 'array_equal', 'allclose', 'isclose',
                 'where', 'clip', 'around', 'amax', 'amin', 'linspace', 'arange', 'dot', 'matmul', 'cross',
                 'trace', 'transpose', 'hstack', 'vstack', 'concatenate', 'stack', 'column_stack', 'squeeze',
                 'reshape', 'ravel', 'flip', 'add', 'subtract', 'multiply', 'divide', 'negative', 'mean',
                 'size', 'shape', 'isscalar', 'float64']:
        setattr(m, name, g[name])
    m.abs = absolute
    m.any = any_
    m.all = all_
    m.sum = sum_
    m.round = around
    m.round_ = around
    m.max = amax
    m.min = amin
    m.asanyarray = asarray
    m.ascontiguousarray = asarray
    m.float32 = float64
    m.r_ = _RClass(_np.r_, 'r')
    m.c_ = _RClass(_np.c_, 'c')
    m.pi = S.sym_pi()
    m.inf = math.inf
    m.ndarray = _np.ndarray
    la = Proxy('numpy.linalg')
    la.__getattr__ = None
    la = types.ModuleType('numpy.linalg')
    la.inv = _inv
    la.pinv = _pinv
    la.det = _det
    la.norm = _norm
    la.solve = _solve
    la.lstsq = _lstsq
    la.svd = _svd
    la.eig = _eig
    la.LinAlgError = _np.linalg.LinAlgError
    la.matrix_rank = lambda a, **k: (_ for _ in ()).throw(S.SymbolicLeak('matrix_rank not modelled'))
    m.linalg = la
    m.random = _Random('numpy.random')
    m.set_printoptions = _np.set_printoptions
    m.errstate = _np.errstate
    m.__vt_proxy__ = True
    return m
