"""The harness-facing API.  A harness is a function h(w) written once and executed by two
interpreters: SymWorld (symbolic inputs, the repository loaded through vt.loader, obligations
decided by Z3) and ConcreteWorld (concrete inputs taken from a solver model, the real installed
library with its compiled kernels, obligations evaluated in float64) used for replay."""
import importlib
import math
from fractions import Fraction

import numpy as _np


class HarnessReject(Exception):
    """raised by a harness in concrete mode when the concrete inputs violate its assumptions"""


def _flat(x):
    if isinstance(x, _np.ndarray):
        return list(x.reshape(-1))
    if isinstance(x, (list, tuple)):
        out = []
        for e in x:
            out.extend(_flat(e))
        return out
    return [x]


def _shape(x):
    if isinstance(x, _np.ndarray):
        return tuple(x.shape)
    if isinstance(x, (list, tuple)):
        return tuple(_np.shape(_np.empty(0)) if False else _nested_shape(x))
    return ()


def _nested_shape(x):
    if isinstance(x, _np.ndarray):
        return tuple(x.shape)
    if isinstance(x, (list, tuple)):
        if not x:
            return (0,)
        return (len(x),) + _nested_shape(x[0])
    return ()


# =============================================================================================
# symbolic
# =============================================================================================

class SymWorld:
    symbolic = True

    def __init__(self, ctx, env, params=None):
        from . import sym as S
        self.S = S
        self.ctx = ctx
        self.env = env
        self.np = env.np
        self.params = params or {}
        self.pi = S.sym_pi()

    # -- inputs ----------------------------------------------------------------------------------
    def real(self, name, lo=None, hi=None):
        S = self.S
        a = S.new_atom(name, 'var')
        if lo is not None and lo >= 0:
            a.nonneg = True
        x = S.Sym.atom(a)
        self.ctx.inputs[name] = (a.z, 'real')
        self.ctx.extra_atoms.add(a.id)
        if lo is not None:
            self._assume_z(a.z >= self._zc(lo), a, lo)
        if hi is not None:
            self._assume_z(a.z <= self._zc(hi), a, hi)
        return x

    def reals(self, name, n, lo=None, hi=None):
        return [self.real('%s%d' % (name, i), lo, hi) for i in range(n)]

    def _assume_z(self, z, atom, bound):
        c = self.ctx
        while len(c.assumes_at) < len(c.assumes):
            c.assumes_at.append(None)
        c.assumes.append(z)
        at = {atom.id}
        if isinstance(bound, self.S.Sym):
            at |= bound.atoms()
        c.assumes_at.append(frozenset(at))

    def _zc(self, v):
        import z3
        S = self.S
        if isinstance(v, S.Sym):
            self.ctx.extra_atoms |= v.atoms()
            return v.z()
        return z3.RealVal(str(Fraction(v) if not isinstance(v, float) else Fraction(repr(v))))

    def angle(self, name, lo=None, hi=None, taylor=False, strict_lo=False, strict_hi=False):
        """angle variable with sin/cos atoms; bounds may be Sym expressions in pi"""
        S = self.S
        a = S.angle_atom(name, lo, hi, taylor)
        if lo is not None and not isinstance(lo, S.Sym) and lo >= 0:
            a.nonneg = True
        if isinstance(lo, S.Sym) and lo.const_value() is None and S._known_nonneg_poly(lo.n):
            a.nonneg = True
        self.ctx.inputs[name] = (a.z, 'angle')
        self.ctx.extra_atoms.add(a.id)
        if lo is not None:
            self._assume_z(a.z > self._zc(lo) if strict_lo else a.z >= self._zc(lo), a, lo)
        if hi is not None:
            self._assume_z(a.z < self._zc(hi) if strict_hi else a.z <= self._zc(hi), a, hi)
        return S.Sym.atom(a)

    def unit3(self, name):
        """unit vector (x, y, z): z^2 is rewritten to 1 - x^2 - y^2"""
        S = self.S
        import z3
        ax = S.new_atom(name + 'x', 'var')
        ay = S.new_atom(name + 'y', 'var')
        az = S.new_atom(name + 'z', 'var')
        if az.id not in S.RULES:
            S.RULES[az.id] = {(): 1, ((ax.id, 2),): -1, ((ay.id, 2),): -1}
            rel = [ax.z * ax.z + ay.z * ay.z + az.z * az.z == 1]
            az.axioms = rel
            ax.axioms = rel
            ay.axioms = rel
            az.deps = (ax.id, ay.id)
            ax.deps = (ay.id, az.id)
            ay.deps = (ax.id, az.id)
            # |z| = sigma*z squares to the reduced form 1 - x^2 - y^2: lets sqrt recognise it
            S.add_sqrt_hint(S.sym_abs(S.Sym.atom(az)))
        for a in (ax, ay, az):
            self.ctx.inputs[a.name] = (a.z, 'unit3:' + name)
            self.ctx.extra_atoms.add(a.id)
        return [S.Sym.atom(ax), S.Sym.atom(ay), S.Sym.atom(az)]

    def unit_quat(self, name):
        """unit quaternion (x, y, z, w), scalar last; w^2 rewritten"""
        S = self.S
        at = [S.new_atom(name + c, 'var') for c in 'xyzw']
        w_ = at[3]
        if w_.id not in S.RULES:
            S.RULES[w_.id] = {(): 1, ((at[0].id, 2),): -1, ((at[1].id, 2),): -1, ((at[2].id, 2),): -1}
            rel = [sum((a.z * a.z for a in at[1:]), at[0].z * at[0].z) == 1]
            for a in at:
                a.axioms = rel
                a.deps = tuple(b.id for b in at if b is not a)
            S.add_sqrt_hint(S.sym_abs(S.Sym.atom(w_)))
        for a in at:
            self.ctx.inputs[a.name] = (a.z, 'quat:' + name)
            self.ctx.extra_atoms.add(a.id)
        return [S.Sym.atom(a) for a in at]

    def const(self, v):
        """exact constant (decimal strings stay exact)"""
        if isinstance(v, str):
            return self.S._nc(Fraction(v))
        if isinstance(v, float):
            return self.S._nc(Fraction(repr(v)))
        return v

    # -- math ------------------------------------------------------------------------------------
    def sin(self, x): return self.env.np.sin(x)
    def cos(self, x): return self.env.np.cos(x)
    def sqrt(self, x): return self.env.np.sqrt(x)
    def abs(self, x): return self.S.sym_abs(x) if isinstance(x, self.S.Sym) else abs(x)

    def array(self, x, dtype=None):
        return self.env.np.array(x)

    def diff(self, x, var):
        """formal derivative of a Sym (or array of Syms) with respect to an input angle/real"""
        S = self.S
        at = S.ATOM_BY_NAME[[k for k in S.ATOM_BY_NAME if S.ATOM_BY_NAME[k].id in var.atoms()][0]] \
            if isinstance(var, S.Sym) else var
        if isinstance(x, _np.ndarray):
            out = _np.empty(x.shape, dtype=object)
            fo, fi = out.reshape(-1), x.reshape(-1)
            for i in range(fi.size):
                fo[i] = S.sym_diff(S.Sym.lift(fi[i]), at)
            return out.view(type(x)) if type(x) is not _np.ndarray else out
        return S.sym_diff(S.Sym.lift(x), at)

    # -- library ---------------------------------------------------------------------------------
    def lib(self, dotted):
        return self.env.get(dotted)

    # -- obligations -----------------------------------------------------------------------------
    def assume(self, cond):
        self.ctx.assume(cond)

    def prove(self, cond, label, detail=None, model_only=False):
        """model_only=True: the path contains havoc'd values (e.g. an arbitrary pseudo-inverse) that no concrete run is
        obliged to realise; a counterexample that does not replay is then reported as unconfirmed, not as a harness error"""
        n0 = len(self.ctx.res.obligations)
        r = self.ctx.prove(cond, label, detail)
        if model_only:
            for ob in self.ctx.res.obligations[n0:]:
                ob.model_only = True
        return r

    def witness(self, label='reachable'):
        return self.ctx.witness(label)

    def lemma(self, cond, label, detail=None):
        """cut rule: prove cond on this path, then use it as a hypothesis for the following obligations"""
        ok = self.ctx.prove(cond, 'lemma: ' + label, detail)
        if ok:
            self.ctx.assume(cond)
        return ok

    def _pairs(self, a, b, label):
        sa, sb = _nested_shape(a), _nested_shape(b)
        if sa != sb:
            # allow (n,) vs (n,1)
            fa, fb = _flat(a), _flat(b)
            if len(fa) != len(fb) or self.params.get('strict_shape', False):
                self.ctx.prove(False, label, 'shape mismatch %s vs %s' % (sa, sb))
                return None
            return list(zip(fa, fb))
        return list(zip(_flat(a), _flat(b)))

    def prove_shape(self, a, shape, label):
        sa = _nested_shape(a)
        return self.ctx.prove(tuple(sa) == tuple(shape), label, 'shape %s expected %s' % (sa, tuple(shape)))

    def prove_close(self, a, b, tol, label):
        """|a - b| <= tol elementwise (tol exact rational); exact normal-form equality is tried first"""
        S = self.S
        pairs = self._pairs(a, b, label)
        if pairs is None:
            return False
        tolq = S._nc(Fraction(tol) if not isinstance(tol, float) else Fraction(repr(tol)))
        conds = []
        for x, y in pairs:
            d = S.Sym.lift(x) - S.Sym.lift(y) if (isinstance(x, S.Sym) or isinstance(y, S.Sym)) else None
            if d is None:
                xv, yv = Fraction(x) if not isinstance(x, float) else x, Fraction(y) if not isinstance(y, float) else y
                if abs(xv - yv) > tolq:
                    conds.append(False)
                continue
            if d.is_zero() or _zero_mod_equations(d):
                continue
            c = d.const_value()
            if c is not None:
                if abs(c) > tolq:
                    conds.append(False)
                continue
            conds.append((d <= tolq) & (d >= -tolq))
        if not conds:
            self.ctx.res.obligations.append(_ob(label, 'proved', 'normal-form'))
            return True
        return self.ctx.prove(S.sb_and(conds), label)

    def prove_eq(self, a, b, label):
        return self.prove_close(a, b, 0, label)

    def prove_raises(self, fn, exc_types, label):
        """the call must raise one of exc_types (used for documented-error clauses)"""
        try:
            fn()
        except exc_types:
            self.ctx.res.obligations.append(_ob(label, 'proved', 'normal-form'))
            return True
        return self.ctx.prove(False, label, 'did not raise')


def _zero_mod_equations(d):
    """d is (+-) one of the defining equations of a fresh linear-solve vector (lazylin): exact, no solver needed"""
    from . import lazylin
    if not lazylin.EQUATIONS:
        return False
    lin = lazylin.LIN_ATOMS
    if not (d.atoms() & lin):
        return False
    for e in lazylin.EQUATIONS:
        if (d - e).is_zero() or (d + e).is_zero():
            return True
    return False


def _ob(label, status, how):
    from .engine import Obligation
    return Obligation(label, status, how)


# =============================================================================================
# concrete (replay)
# =============================================================================================

class ConcreteFailure:
    def __init__(self, label, detail):
        self.label = label
        self.detail = detail


class ConcreteWorld:
    symbolic = False

    def __init__(self, values, params=None, slack=0.0, rng=None):
        self.rng = rng            # sampling mode: inputs absent from `values` are drawn uniformly from their range
        self.drawn = {}
        self.values = values
        self.params = params or {}
        self.np = _np
        self.pi = math.pi
        self.failures = []
        self.checked = []
        self.slack = slack

    def _val(self, name, default=0.37, lo=None, hi=None):
        if name not in self.values:
            if self.rng is not None:
                a = -1.0 if lo is None else float(lo)
                b = 1.0 if hi is None else float(hi)
                if lo is None and hi is not None:
                    a = b - 2.0
                if hi is None and lo is not None:
                    b = a + 2.0
                r = self.rng.random()
                # some mass on the ends and on small magnitudes
                if r < 0.05:
                    v = a
                elif r < 0.10:
                    v = b
                elif r < 0.2:
                    v = max(a, min(b, self.rng.uniform(-1, 1)))
                else:
                    v = self.rng.uniform(a, b)
                self.drawn[name] = v
                return v
            # inputs created after the failing obligation are absent from the model: any value will do
            return default
        v = self.values[name]
        if isinstance(v, str):
            if '/' in v:
                return float(Fraction(v))
            return float(v)
        return float(v)

    def real(self, name, lo=None, hi=None):
        v = self._val(name, lo=lo, hi=hi)
        if lo is not None and v < float(lo) - 1e-12:
            raise HarnessReject('%s below range' % name)
        if hi is not None and v > float(hi) + 1e-12:
            raise HarnessReject('%s above range' % name)
        return v

    def reals(self, name, n, lo=None, hi=None):
        return [self.real('%s%d' % (name, i), lo, hi) for i in range(n)]

    def angle(self, name, lo=None, hi=None, taylor=False, strict_lo=False, strict_hi=False):
        v = self._val(name, lo=lo, hi=hi)
        return v

    def unit3(self, name):
        v = _np.array([self._val(name + c) for c in 'xyz'])
        n = _np.linalg.norm(v)
        if n == 0:
            raise HarnessReject('zero axis')
        return list(v / n)

    def unit_quat(self, name):
        v = _np.array([self._val(name + c) for c in 'xyzw'])
        n = _np.linalg.norm(v)
        if n == 0:
            raise HarnessReject('zero quaternion')
        return list(v / n)

    def const(self, v):
        if isinstance(v, str):
            return float(Fraction(v))
        return float(v) if isinstance(v, Fraction) else v

    def sin(self, x): return _np.sin(x)
    def cos(self, x): return _np.cos(x)
    def sqrt(self, x): return _np.sqrt(x)
    def abs(self, x): return abs(x)

    def array(self, x, dtype=float):
        def conv(e):
            if isinstance(e, Fraction):
                return float(e)
            if isinstance(e, (list, tuple)):
                return [conv(q) for q in e]
            if isinstance(e, _np.ndarray):
                return e.astype(float) if e.dtype != object else _np.array([conv(q) for q in e.reshape(-1)]).reshape(e.shape)
            return e
        return _np.array(conv(x), dtype=dtype)

    def lib(self, dotted):
        return importlib.import_module('basic_robotics.' + dotted)

    def assume(self, cond):
        if not cond:
            raise HarnessReject('assumption false on concrete inputs')

    def prove(self, cond, label, detail=None, model_only=False):
        ok = bool(cond)
        self.checked.append(label)
        if not ok:
            self.failures.append(ConcreteFailure(label, detail or 'condition false'))
        return ok

    def witness(self, label='reachable'):
        return True, None

    def lemma(self, cond, label, detail=None):
        return self.prove(cond, 'lemma: ' + label, detail)

    def prove_shape(self, a, shape, label):
        sa = tuple(_np.shape(a))
        return self.prove(sa == tuple(shape), label, 'shape %s expected %s' % (sa, tuple(shape)))

    def prove_close(self, a, b, tol, label):
        self.checked.append(label)
        try:
            fa = _np.array(_flat(a), dtype=float)
            fb = _np.array(_flat(b), dtype=float)
        except Exception as e:
            self.failures.append(ConcreteFailure(label, 'not numeric: %s' % e))
            return False
        if fa.shape != fb.shape:
            self.failures.append(ConcreteFailure(label, 'shape mismatch %s vs %s' % (_np.shape(a), _np.shape(b))))
            return False
        if self.params.get('strict_shape', False) and tuple(_np.shape(a)) != tuple(_np.shape(b)):
            self.failures.append(ConcreteFailure(label, 'shape mismatch %s vs %s' % (_np.shape(a), _np.shape(b))))
            return False
        if fa.size == 0:
            return True
        if not (_np.all(_np.isfinite(fa)) and _np.all(_np.isfinite(fb))):
            self.failures.append(ConcreteFailure(label, 'non-finite values'))
            return False
        err = float(_np.max(_np.abs(fa - fb)))
        t = float(tol) + self.slack
        if err > t:
            self.failures.append(ConcreteFailure(label, 'max abs difference %.3e > tol %.3e' % (err, t)))
            return False
        return True

    def prove_eq(self, a, b, label):
        return self.prove_close(a, b, self.params.get('eq_tol', 1e-9), label)

    def prove_raises(self, fn, exc_types, label):
        try:
            fn()
        except exc_types:
            return True
        self.failures.append(ConcreteFailure(label, 'did not raise'))
        return False

    def diff(self, x, var):
        raise HarnessReject('formal differentiation is symbolic-only')
