"""C19: drive the REAL Comms hub with in-memory CommsObject doubles side by side with a small
reference model of the rule tables; used by CrossHair (symbolic op codes / arguments) and by the
concrete replay.  No numerics here: everything is dict/list/str/int."""
import importlib.util
import os
import sys
import types

REPO = os.environ.get('VERIF_REPO', '/repo')


def _load_interfaces():
    """load basic_robotics.interfaces.{comms_object,udp_bridge,comms_core} from the working tree without
    importing the whole (numba-heavy) package; serial_bridge is loaded only if pyserial is importable"""
    base = os.path.join(REPO, 'basic_robotics', 'interfaces')
    pkg_name = 'vt_br_interfaces'
    if pkg_name + '.comms_core' in sys.modules:
        return sys.modules[pkg_name + '.comms_core'], sys.modules[pkg_name + '.comms_object'], \
            sys.modules[pkg_name + '.udp_bridge']
    pkg = types.ModuleType(pkg_name)
    pkg.__path__ = [base]
    sys.modules[pkg_name] = pkg
    mods = {}
    for name in ('comms_object', 'serial_bridge', 'udp_bridge', 'comms_core'):
        spec = importlib.util.spec_from_file_location(pkg_name + '.' + name, os.path.join(base, name + '.py'))
        m = importlib.util.module_from_spec(spec)
        sys.modules[pkg_name + '.' + name] = m
        try:
            spec.loader.exec_module(m)
        except ImportError:
            if name != 'serial_bridge':
                raise
            m.SerialObject = type('SerialObject', (), {})
        mods[name] = m
    return mods['comms_core'], mods['comms_object'], mods['udp_bridge']


comms_core, comms_object, udp_bridge = _load_interfaces()

NAMES = ('e0', 'e1', 'ghost')        # two registered endpoints, one unknown name
N_EP = 2
N_NAMES = 3
MSGS = ('m0', 'm1', '')


class Double(comms_object.CommsObject):
    """in-memory endpoint: inbox of pending messages, log of sendData calls"""

    def __init__(self, name, log):
        super().__init__(name, 'MEM')
        self.inbox = []
        self.log = log
        self.open = True

    def sendData(self, data):
        self.log.append(('send', self.name, data))
        return True

    def getData(self):
        if not self.open or not self.inbox:
            self.log.append(('recv', self.name, None))
            return None
        m = self.inbox.pop(0)
        self.log.append(('recv', self.name, m))
        return m

    def openCom(self):
        self.open = True
        return True

    def closeCom(self):
        self.open = False


class FakeSocket:
    """in-memory stand-in for the UDP socket of a UDPObject: recvfrom times out when nothing is queued"""

    def __init__(self, name, log):
        self.name = name
        self.log = log
        self.queue = []

    def sendto(self, payload, addr):
        self.log.append(('send', self.name, payload.decode('utf-8')))
        return len(payload)

    def recvfrom(self, n):
        if not self.queue:
            self.log.append(('recv', self.name, None))
            raise TimeoutError('timed out')
        m = self.queue.pop(0)
        self.log.append(('recv', self.name, m.decode('utf-8')))
        return m, ('127.0.0.1', 1)

    def close(self):
        pass

    def shutdown(self, how):
        pass

    def settimeout(self, t):
        pass

    def bind(self, addr):
        pass


class _FakeSocketModule:
    """replaces the `socket` name inside udp_bridge while a UDP world is alive (no real sockets are opened)"""
    AF_INET = 2
    SOCK_DGRAM = 2
    SHUT_RDWR = 2
    current_log = None

    @classmethod
    def socket(cls, *a, **k):
        return FakeSocket(None, cls.current_log)


class _UdpInbox:
    """list-like view used by the harness to enqueue / inspect pending datagrams of a UDP endpoint"""

    def __init__(self, sock):
        self.sock = sock

    def append(self, m):
        self.sock.queue.append(m.encode('utf-8'))

    def __bool__(self):
        return bool(self.sock.queue)

    def __len__(self):
        return len(self.sock.queue)


class SinkObj:
    """sinks are registered as BOUND METHODS: a fresh, equal-but-not-identical object on every access"""

    def __init__(self, i, log):
        self.i = i
        self.log = log

    def on_message(self, msg):
        self.log.append(('sink', self.i, msg))


class SourceObj:
    def __init__(self, i, log):
        self.i = i
        self.log = log

    def produce(self):
        self.log.append(('source', self.i, None))
        return 's%d' % self.i


class _Accessor:
    """w.sinks[i] evaluates obj.method anew each time (like user code passing rec.on_message)"""

    def __init__(self, objs, attr):
        self.objs = objs
        self.attr = attr

    def __getitem__(self, i):
        return getattr(self.objs[i], self.attr)


class World:
    def __init__(self, n_endpoints=N_EP, kind='mem'):
        self.log = []
        self.kind = kind
        self.hub = comms_core.Comms()
        self.eps = []
        for i in range(n_endpoints):
            if kind == 'udp':
                udp_bridge.socket = _FakeSocketModule
                _FakeSocketModule.current_log = self.log
                d = udp_bridge.UDPObject(NAMES[i], '127.0.0.1', 1, 2, 0.0)
                d.comm_handle = FakeSocket(NAMES[i], self.log)
                d.open = True
                d.inbox = _UdpInbox(d.comm_handle)
            else:
                d = Double(NAMES[i], self.log)
            self.hub.endpoints[NAMES[i]] = d
            self.eps.append(d)
        self.sinks = _Accessor([SinkObj(0, self.log), SinkObj(1, self.log)], 'on_message')
        self.sources = _Accessor([SourceObj(0, self.log), SourceObj(1, self.log)], 'produce')
        # reference model of the rule tables
        self.m_fwd = {}
        self.m_sinks = {}
        self.m_srcs = {}
        self.n_ep = n_endpoints

    # -- expected effects -------------------------------------------------------------------------
    def _known(self, name):
        return name in NAMES[:self.n_ep]

    def _expected_for_log(self, seg):
        """Given the log segment of one hub call, return None if consistent with the rules, else a reason.
        Every ('recv', ep, msg) must be followed - before the next recv/source event - by exactly one send to
        each active destination of ep and one call of each active sink of ep (nothing when msg is None)."""
        i = 0
        n = len(seg)
        while i < n:
            ev = seg[i]
            if ev[0] == 'recv':
                j = i + 1
                got = []
                while j < n and seg[j][0] in ('send', 'sink'):
                    got.append(seg[j])
                    j += 1
                # sends that belong to a following source event are handled below: sources log first
                exp = []
                if ev[2] is not None:
                    for d in self.m_fwd.get(ev[1], []):
                        if self.kind == 'udp' and not self.hub.endpoints[d].open:
                            continue      # a closed UDP port drops what it is asked to send (observed at socket level)
                        exp.append(('send', d, ev[2]))
                    for s in self.m_sinks.get(ev[1], []):
                        exp.append(('sink', s, ev[2]))
                if sorted(got) != sorted(exp):
                    return 'after %r delivered %r expected %r' % (ev, got, exp)
                i = j
            elif ev[0] == 'source':
                if self.kind == 'udp' and (i + 1 >= n or seg[i + 1][0] != 'send'):
                    i += 1                # value handed to a closed UDP port: nothing reaches the socket
                    continue
                if i + 1 >= n or seg[i + 1][0] != 'send' or seg[i + 1][2] != 's%d' % ev[1]:
                    return 'source %d value not sent' % ev[1]
                ep = seg[i + 1][1]
                if ev[1] not in self.m_srcs.get(ep, []):
                    return 'source %d sent to %s which it is not registered for' % (ev[1], ep)
                i += 2
            else:
                return 'unexpected event %r' % (ev,)
        return None

    # -- one operation -----------------------------------------------------------------------------
    def step(self, op, a, b):
        """returns None if the real hub behaved as the property demands, else a string"""
        hub = self.hub
        a %= N_NAMES
        mark = len(self.log)
        na = NAMES[a]
        try:
            if op == 0:      # setForwardData(a -> b)
                nb = NAMES[b % N_NAMES]
                r = hub.setForwardData(na, nb)
                exp = self._known(na) and self._known(nb) and nb not in self.m_fwd.get(na, [])
                if exp:
                    self.m_fwd.setdefault(na, []).append(nb)
                if r is not exp:
                    return 'setForwardData(%s,%s) returned %r expected %r' % (na, nb, r, exp)
            elif op == 1:    # deleteForwardingRule
                nb = NAMES[b % N_NAMES]
                r = hub.deleteForwardingRule(na, nb)
                exp = self._known(nb) and nb in self.m_fwd.get(na, [])
                if exp:
                    self.m_fwd[na].remove(nb)
                if r is not exp:
                    return 'deleteForwardingRule(%s,%s) returned %r expected %r' % (na, nb, r, exp)
            elif op == 2:    # setDataSink
                s = b % 2
                r = hub.setDataSink(na, self.sinks[s])
                exp = self._known(na) and s not in self.m_sinks.get(na, [])
                if exp:
                    self.m_sinks.setdefault(na, []).append(s)
                if r is not exp:
                    return 'setDataSink(%s,%d) returned %r expected %r' % (na, s, r, exp)
            elif op == 3:    # setDataSource
                s = b % 2
                r = hub.setDataSource(na, self.sources[s])
                exp = self._known(na) and s not in self.m_srcs.get(na, [])
                if exp:
                    self.m_srcs.setdefault(na, []).append(s)
                if r is not exp:
                    return 'setDataSource(%s,%d) returned %r expected %r' % (na, s, r, exp)
            elif op == 4:    # a message arrives at endpoint a (environment), then getData(a)
                m = MSGS[b % 3]
                if self._known(na):
                    self.eps[a].inbox.append(m)
                pending = bool(self._known(na) and self.eps[a].open)
                r = hub.getData(na)
                seg = self.log[mark:]
                recvs = [e for e in seg if e[0] == 'recv']
                if pending:
                    if len(recvs) != 1:
                        return 'getData(%s) polled %d times' % (na, len(recvs))
                    if recvs[0][2] is None:
                        return 'getData(%s): a message was pending but the receive reported no data' % na
                    if r != recvs[0][2]:
                        return 'getData(%s) returned %r but received %r' % (na, r, recvs[0][2])
                elif r is not None or [e for e in seg if e[0] != 'recv' or e[2] is not None]:
                    return 'getData on a closed/unknown port did something: %r %r' % (r, seg)
            elif op == 5:    # getData with whatever is pending: time-out if nothing / unknown port
                pending = bool(self._known(na) and self.eps[a].inbox and self.eps[a].open)
                r = hub.getData(na)
                seg = self.log[mark:]
                if not pending and r is not None:
                    return 'getData(%s) returned %r with nothing pending' % (na, r)
                if not self._known(na) and seg:
                    return 'getData on unknown port did something'
            elif op == 6:    # spin(k)
                k = 1 + b % 2
                hub.spin(k)
                seg = self.log[mark:]
                for si in (0, 1):
                    calls = len([e for e in seg if e[0] == 'source' and e[1] == si])
                    regs = sum(1 for ep in self.m_srcs if si in self.m_srcs[ep])
                    if calls != k * regs:
                        return 'spin(%d): source %d called %d times, registered on %d endpoints' % (k, si, calls, regs)
            elif op == 7:    # close / open endpoint a; sendData through the hub
                if self._known(na):
                    if b % 3 == 0:
                        hub.closeCom(na)
                    elif b % 3 == 1:
                        hub.openCom(na)
                        ep = self.eps[a]
                        if self.kind == 'udp' and getattr(ep.comm_handle, 'name', '') is None:
                            ep.comm_handle.name = na          # re-opened port: fresh (empty) socket double
                            ep.inbox = _UdpInbox(ep.comm_handle)
                    else:
                        hub.sendData(na, 'x')
                        seg = self.log[mark:]
                        if self.kind == 'udp' and not self.eps[a].open:
                            return None if not seg else 'closed port sent %r' % (seg,)
                        if seg != [('send', na, 'x')]:
                            return 'sendData(%s) logged %r' % (na, seg)
                        return None
                else:
                    hub.sendData(na, 'x')
                    hub.closeCom(na)
            else:
                return None
        except Exception as e:       # never BaseException: CrossHair steers with those
            return 'raised %s: %s' % (type(e).__name__, e)
        seg = self.log[mark:]
        if op == 7:
            return None if not seg else 'open/close produced traffic %r' % (seg,)
        return self._expected_for_log(seg)


N_OPS = 8


def run_history(ops, kind='mem'):
    """ops: list of (op, a, b) small ints -> None if fine else (index, reason)"""
    w = World(kind=kind)
    for i, (op, a, b) in enumerate(ops):
        r = w.step(op % N_OPS, a, b)
        if r is not None:
            return (i, r)
    return None


# ---- inductive step: arbitrary rule-table state satisfying the representation invariant ------------

def world_from_state(fw, sk, sr):
    """fw, sk, sr: small ints encoding the rule tables bit-wise.
    fw bit (2*i+j): e_i forwards to e_j ; sk bit (2*i+s): sink s on e_i ; sr likewise for sources.
    bits 4..7 of fw: key present with empty list (after deletions) for e_0/e_1 (bit 4,5)."""
    w = World()
    for i in range(2):
        lst = [NAMES[j] for j in range(2) if (fw >> (2 * i + j)) & 1]
        if lst or (fw >> (4 + i)) & 1:
            w.m_fwd[NAMES[i]] = list(lst)
            w.hub.forwarding[NAMES[i]] = [w.hub.endpoints[n] for n in lst]
        ss = [s for s in range(2) if (sk >> (2 * i + s)) & 1]
        if ss:
            w.m_sinks[NAMES[i]] = list(ss)
            w.hub.output_functions[NAMES[i]] = [w.sinks[s] for s in ss]
        rr = [s for s in range(2) if (sr >> (2 * i + s)) & 1]
        if rr:
            w.m_srcs[NAMES[i]] = list(rr)
            w.hub.input_functions[NAMES[i]] = [w.sources[s] for s in rr]
    return w


def run_step_from_state(fw, sk, sr, pend, op, a, b):
    w = world_from_state(fw, sk, sr)
    for i in range(2):
        if (pend >> i) & 1:
            w.eps[i].inbox.append('p%d' % i)
    if (pend >> 2) & 1:
        w.eps[0].open = False
    r = w.step(op % N_OPS, a, b)
    if r is not None:
        return r
    # representation invariant re-established: lists without duplicates over registered endpoints
    for name, lst in w.hub.forwarding.items():
        if len(set(id(x) for x in lst)) != len(lst):
            return 'duplicate forwarding entries'
        if any(x not in w.hub.endpoints.values() for x in lst):
            return 'forwarding to an unregistered endpoint'
        if [x.name for x in lst] != w.m_fwd.get(name, []):
            return 'forwarding table differs from the model'
    for name, lst in w.hub.output_functions.items():
        if len(set(id(x) for x in lst)) != len(lst):
            return 'duplicate sinks'
    for name, lst in w.hub.input_functions.items():
        if len(set(id(x) for x in lst)) != len(lst):
            return 'duplicate sources'
    return None


# ---- path counting for evidence: CrossHair runs the body once per explored path ---------------------
_orig_run_history = run_history
_orig_run_step = run_step_from_state


def _count():
    p = os.environ.get('VT_XH_COUNT_FILE')
    if p:
        try:
            with open(p, 'a') as f:
                f.write('1\n')
        except OSError:
            pass


def run_history(ops, kind='mem'):
    _count()
    return _orig_run_history(ops, kind)


def run_step_from_state(fw, sk, sr, pend, op, a, b):
    _count()
    return _orig_run_step(fw, sk, sr, pend, op, a, b)
